------------------------------ MODULE BigDec ------------------------------
(***************************************************************************)
(* Exact signed decimal arithmetic for TLC.                                *)
(*                                                                         *)
(* TLC integers are 32-bit and TLC aborts on overflow (it never wraps), so *)
(* the CVSS equations -- which need up to 170 decimal places for the v3.1  *)
(* changed-scope polynomial -- are evaluated on little-endian sequences of *)
(* limbs in base 10^4.  No CVSS equation divides, and every weight is a    *)
(* finite decimal, so every intermediate value is represented exactly.     *)
(*                                                                         *)
(* A natural number is a limb sequence without leading (high) zero limbs;  *)
(* a decimal is [s |-> 1|-1, m |-> limbs, e |-> number of fractional       *)
(* limbs], value = s * m / B^e.                                            *)
(***************************************************************************)
EXTENDS Integers, Sequences, SequencesExt

(***************************************************************************)
(* No RECURSIVE operator is used anywhere in this module: TLC does not     *)
(* pre-evaluate (and cache) a constant definition whose body reaches a     *)
(* RECURSIVE operator, which would make every memo table of the score      *)
(* modules be recomputed on each use.  Iteration is done with FoldLeft     *)
(* (CommunityModules, evaluated by a Java loop).                           *)
(***************************************************************************)
B == 10000

Idx(n) == [i \in 1..n |-> i]
SetMax(S) == CHOOSE i \in S : \A j \in S : j <= i
SetMin(S) == CHOOSE i \in S : \A j \in S : i <= j
Max2(x, y) == IF x >= y THEN x ELSE y
Min2(x, y) == IF x <= y THEN x ELSE y

NNorm(a) == LET nz == {i \in 1..Len(a) : a[i] # 0}
            IN IF nz = {} THEN <<>> ELSE SubSeq(a, 1, SetMax(nz))
Limb(a, i) == IF i <= Len(a) THEN a[i] ELSE 0

NOfInt(n) == NNorm(<<n % B, (n \div B) % B, n \div (B*B)>>)   \* 0 <= n < 2^31
NToInt(a) == Limb(a,1) + B * Limb(a,2) + B * B * Limb(a,3)     \* caller guarantees it fits

NAdd(a, b) ==
  LET st == FoldLeft(LAMBDA s, i : LET t == Limb(a,i) + Limb(b,i) + s[1]
                                   IN <<t \div B, Append(s[2], t % B)>>,
                     <<0, <<>>>>, Idx(Max2(Len(a), Len(b))))
  IN IF st[1] = 0 THEN st[2] ELSE Append(st[2], st[1])

\* a >= b required
NSub(a, b) ==
  LET st == FoldLeft(LAMBDA s, i : LET d == a[i] - Limb(b,i) - s[1]
                                   IN IF d < 0 THEN <<1, Append(s[2], d + B)>>
                                               ELSE <<0, Append(s[2], d)>>,
                     <<0, <<>>>>, Idx(Len(a)))
  IN NNorm(st[2])

NCmp(a, b) ==
  LET d == {i \in 1..Max2(Len(a), Len(b)) : Limb(a,i) # Limb(b,i)}
  IN IF d = {} THEN 0
     ELSE LET k == SetMax(d) IN IF Limb(a,k) > Limb(b,k) THEN 1 ELSE -1

NShift(a, n) == IF a = <<>> \/ n = 0 THEN a ELSE [i \in 1..n |-> 0] \o a

\* b of at most 4 limbs: column sums first (each < 4 * 10^8, no overflow),
\* then a single carry pass
NMul4(a, b) ==
  LET la == Len(a)
      lb == Len(b)
      T(k, j) == IF j <= lb /\ k - j + 1 >= 1 /\ k - j + 1 <= la THEN a[k - j + 1] * b[j] ELSE 0
      st == FoldLeft(LAMBDA s, k : LET t == T(k, 1) + T(k, 2) + T(k, 3) + T(k, 4) + s[1]
                                   IN <<t \div B, Append(s[2], t % B)>>,
                     <<0, <<>>>>, Idx(la + lb))
  IN NNorm(IF st[1] = 0 THEN st[2] ELSE st[2] \o NOfInt(st[1]))
\* general case: b in chunks of 4 limbs
NMulChunks(a, b) ==
  FoldLeft(LAMBDA acc, c : NAdd(acc, NShift(NMul4(a, SubSeq(b, 4*c - 3, Min2(4*c, Len(b)))), 4*c - 4)),
           <<>>, Idx((Len(b) + 3) \div 4))
NMul(a, b) == IF a = <<>> \/ b = <<>> THEN <<>>
              ELSE IF Len(b) <= 4 THEN NMul4(a, b)
              ELSE IF Len(a) <= 4 THEN NMul4(b, a)
              ELSE NMulChunks(a, b)
NMulS(a, k) == IF k = 0 \/ a = <<>> THEN <<>> ELSE NMul4(a, <<k>>)   \* 0 <= k < B

(***************************************************************************)
(* Decimals                                                                *)
(***************************************************************************)
\* canonical form: no low-order zero limbs in the fraction (keeps numbers short
\* and makes equal values equal records), zero is [s |-> 1, m |-> <<>>, e |-> 0]
LowZeros(m, e) == Min2(e, SetMin({i \in 1..Len(m) : m[i] # 0}) - 1)   \* m normalized, non-empty
Dec(s, m, e) == IF m = <<>> THEN [s |-> 1, m |-> <<>>, e |-> 0]
                ELSE LET k == LowZeros(m, e)
                     IN [s |-> s, m |-> SubSeq(m, k + 1, Len(m)), e |-> e - k]
Pow10(k) == IF k = 0 THEN 1 ELSE IF k = 1 THEN 10 ELSE IF k = 2 THEN 100 ELSE 1000
\* n / 10^d  (n integer, possibly negative, |n| < 2^31, d >= 0)
DOf(n, d) == LET k == (d + 3) \div 4
                 a == IF n < 0 THEN 0 - n ELSE n
             IN Dec(IF n < 0 THEN -1 ELSE 1, NNorm(NMulS(NOfInt(a), Pow10(4*k - d))), k)
DInt(n) == DOf(n, 0)
DAlign(x, e) == NShift(x.m, e - x.e)
DNeg(x) == Dec(0 - x.s, x.m, x.e)
DAdd(x, y) ==
  LET e == Max2(x.e, y.e)
      a == DAlign(x, e)
      b == DAlign(y, e)
  IN IF x.s = y.s THEN Dec(x.s, NAdd(a, b), e)
     ELSE LET c == NCmp(a, b)
          IN IF c = 0 THEN Dec(1, <<>>, e)
             ELSE IF c > 0 THEN Dec(x.s, NSub(a, b), e) ELSE Dec(y.s, NSub(b, a), e)
DSub(x, y) == DAdd(x, DNeg(y))
DMul(x, y) == Dec(x.s * y.s, NMul(x.m, y.m), x.e + y.e)
DPow(x, n) == FoldLeft(LAMBDA acc, i : DMul(acc, x), DInt(1), Idx(n))
DCmp(x, y) == LET d == DSub(x, y) IN IF d.m = <<>> THEN 0 ELSE d.s
DMin(x, y) == IF DCmp(x, y) <= 0 THEN x ELSE y
DIsZero(x) == x.m = <<>>
DIsPos(x) == x.m # <<>> /\ x.s = 1
DIsNeg(x) == x.m # <<>> /\ x.s = -1
DAbs(x) == Dec(1, x.m, x.e)
\* x * 10^k as a decimal (exact): whole limbs are moved through the exponent,
\* the remainder (k mod 4) by a single-limb multiplication
DScale(x, k) == LET j == k \div 4
                    r == k % 4
                    m1 == NMulS(x.m, Pow10(r))
                IN IF x.e >= j THEN Dec(x.s, m1, x.e - j)
                               ELSE Dec(x.s, NShift(m1, j - x.e), 0)

\* integer and fractional part of a NON-NEGATIVE decimal
DFloorInt(x) == IF Len(x.m) <= x.e THEN 0 ELSE NToInt(SubSeq(x.m, x.e + 1, Len(x.m)))
DHasFrac(x) == \E i \in 1..x.e : Limb(x.m, i) # 0
DFrac(x) == Dec(1, NNorm(SubSeq(x.m, 1, IF Len(x.m) < x.e THEN Len(x.m) ELSE x.e)), x.e)
Half == DOf(5, 1)

\* ceiling of x * 10^k for x >= 0
CeilScaled(x, k) == LET y == DScale(x, k)
                    IN DFloorInt(y) + (IF DHasFrac(y) THEN 1 ELSE 0)
CeilTenth(x) == CeilScaled(x, 1)
FloorScaled(x, k) == DFloorInt(DScale(x, k))       \* x >= 0

\* round-half-up of x * 10^k for x >= 0 (what "round()" means on an exact value)
RoundHalfUpScaled(x, k) == DFloorInt(DAdd(DScale(x, k), Half))

\* The set of integers nearest to x * 10^k, for any sign: one element, or the
\* two neighbours when x * 10^k lies exactly halfway between two integers.
NearestScaled(x, k) ==
  LET y  == DAbs(DScale(x, k))
      n  == DFloorInt(y)
      c  == DCmp(DFrac(y), Half)
      up == IF c < 0 THEN {n} ELSE IF c > 0 THEN {n + 1} ELSE {n, n + 1}
  IN IF DIsNeg(x) THEN {0 - u : u \in up} ELSE up
IsHalfScaled(x, k) == DCmp(DFrac(DAbs(DScale(x, k))), Half) = 0
=============================================================================
