------------------------------ MODULE Objects ------------------------------
(***************************************************************************)
(* The metrics objects of the library as a state machine (C12, C15, C16).  *)
(*                                                                         *)
(* Abstract object (what a caller can observe of a *Base / *Temporal /     *)
(* *Environmental of either CVSS version):                                 *)
(*   [nil  |-> BOOLEAN,              a nil pointer of the type             *)
(*    fam  |-> "v3" | "v2",  lvl |-> "B" | "T" | "E",                      *)
(*    ver  |-> "?" | "3.0" | "3.1"   (v3; "-" for v2),                     *)
(*    f    |-> [metric name -> value code | "?"]   exported fields,        *)
(*    names |-> set of metric names the object has recorded as decoded]    *)
(*                                                                         *)
(* Operations (one action per public call):                                *)
(*   New, NilOf            constructors / a nil receiver                   *)
(*   Decode(recv, s)       returns (object, error)                         *)
(*   SetField / SetVer     a caller writing an exported field              *)
(*   Query(x, via, q)      GetError, Encode, String, Score, Severity,      *)
(*                         BaseMetrics, TemporalMetrics, IsEmpty, possibly *)
(*                         through the accessor `via`                      *)
(* Every query is read-only and its result is a function of the receiver's *)
(* current state (C15); on nil, fresh and field-reset receivers the        *)
(* validity/encoding queries report an error and the score is 0 (C12).     *)
(***************************************************************************)
EXTENDS Vector

UnknownCode == "?"
NilObj(fam, lvl) == [nil |-> TRUE, fam |-> fam, lvl |-> lvl, ver |-> "-", f |-> <<>>, names |-> {}]

\* constructor results: v3 optional metrics start Not Defined, v2 everything unknown
Fresh(fam, lvl) ==
  [nil |-> FALSE, fam |-> fam, lvl |-> lvl,
   ver |-> IF fam = "v3" THEN "?" ELSE "-",
   f |-> [n \in NameSet(fam, lvl) |-> IF fam = "v3" /\ n \notin BaseNameSet(fam) THEN "X" ELSE UnknownCode],
   names |-> {}]

\* the object an accepting Decode returns
Decoded(fam, lvl, s) ==
  LET W == WrittenAll(fam, s)
  IN [nil |-> FALSE, fam |-> fam, lvl |-> lvl,
      ver |-> IF fam = "v3" THEN VersionOf(s) ELSE "-",
      f |-> [n \in NameSet(fam, lvl) |->
               IF W[n] # "-" THEN W[n] ELSE IF fam = "v3" THEN "X" ELSE UnknownCode],
      names |-> {n \in NameSet(fam, lvl) : W[n] # "-"}]

\* the sub-object a lower-level accessor exposes
LowerNames(fam, via) == NameSet(fam, via)
ViewOf(o, via) ==
  IF o.nil THEN NilObj(o.fam, via)
  ELSE [o EXCEPT !.lvl = via, !.f = [n \in LowerNames(o.fam, via) |-> o.f[n]],
                 !.names = o.names \cap LowerNames(o.fam, via)]

(***************************************************************************)
(* Validity (C12): the version or a metric of the queried level -- for v2: *)
(* a base metric or a metric of a group that is present -- holds its       *)
(* unknown/invalid value.                                                  *)
(***************************************************************************)
GroupPresentIn(o, g) == \E n \in Range(GroupNames(o.fam, g)) : n \in o.names
LevelGroups(lvl) == CASE lvl = "B" -> {"B"} [] lvl = "T" -> {"B", "T"} [] lvl = "E" -> {"B", "T", "E"}
RelevantNames(o) ==
  IF o.fam = "v3" THEN NameSet("v3", o.lvl)
  ELSE UNION {Range(GroupNames("v2", g)) : g \in {h \in LevelGroups(o.lvl) : h = "B" \/ GroupPresentIn(o, h)}}
Invalid(o) ==
  \/ o.nil
  \/ o.fam = "v3" /\ o.ver \notin V3Versions
  \/ \E n \in RelevantNames(o) : o.f[n] = UnknownCode \/ o.f[n] \notin CodesOf(o.fam, n)

\* Is the state one the properties speak about with certainty?  (The state left in a
\* receiver by a failed Decode is unspecified: queries must merely not panic.)
Queries == {"GetError", "Encode", "String", "Score", "Severity", "BaseMetrics", "TemporalMetrics", "IsEmpty"}

\* C12 on a query result r = [err, sc] observed on object o (through its own level)
InvalidResultOk(q, r) ==
  CASE q = "GetError" -> r.err
    [] q = "Encode" -> r.err
    [] q = "Score" -> r.sc = 0
    [] OTHER -> TRUE

(***************************************************************************)
(* Implementation-shaped layer (MODEL-DRIFT only): the text Encode() and   *)
(* String() return in ANY state, as the code builds it.  v3 Base: the      *)
(* version prefix unless unknown, then the recorded base metrics in order; *)
(* v3 Temporal: that plus E, RL, RC always; v3 Environmental: nothing at   *)
(* all on an invalid object, else everything; v2: recorded metrics only,   *)
(* higher groups appended with a leading "/".                              *)
(* An unknown value prints as the empty string.                            *)
(***************************************************************************)
CodeText(c) == IF c = UnknownCode \/ (Len(c) > 0 /\ SubSeq(c, 1, 1) = "#") THEN "" ELSE c
TokensText(o, names) == [i \in 1..Len(names) |-> names[i] \o ":" \o CodeText(o.f[names[i]])]
EncodeText(o) ==
  IF o.nil THEN ""
  ELSE IF o.fam = "v3"
  THEN LET bn == SelectSeq(V3BaseNames, LAMBDA n : n \in o.names)
           pre == IF o.ver \in V3Versions THEN <<"CVSS:" \o o.ver>> ELSE <<>>
           bs == JoinWith(pre \o TokensText(o, bn), "/")
           ts == bs \o "/" \o JoinWith(TokensText(o, V3TempNames), "/")
       IN CASE o.lvl = "B" -> bs
            [] o.lvl = "T" -> ts
            [] o.lvl = "E" -> IF Invalid(o) THEN "" ELSE ts \o "/" \o JoinWith(TokensText(o, V3EnvNames), "/")
  ELSE \* v2: the recorded base metrics joined by "/", then "/name:value" appended for every recorded temporal and
       \* environmental metric (so the text starts with "/" when no base metric is recorded)
       LET rec(ns) == SelectSeq(ns, LAMBDA n : n \in o.names)
           bs == JoinWith(TokensText(o, rec(V2BaseNames)), "/")
           suffix(ns) == LET tt == TokensText(o, rec(ns))
                         IN FoldLeft(LAMBDA acc, i : acc \o "/" \o tt[i], "", [i \in 1..Len(tt) |-> i])
       IN CASE o.lvl = "B" -> bs
            [] o.lvl = "T" -> bs \o suffix(V2TempNames)
            [] o.lvl = "E" -> bs \o suffix(V2TempNames) \o suffix(V2EnvNames)

\* which sentinel GetError (and Encode) report on an invalid object, as the code decides it
\* (MODEL-DRIFT only; the properties ask for "an error", not for its kind)
UnknownIn(o, names) == \E n \in Range(names) : n \in DOMAIN o.f /\ o.f[n] = UnknownCode
ErrorKind(o, q) ==
  LET nilKind == CASE o.lvl = "B" -> "NoBaseMetrics" [] o.lvl = "T" -> "NoTemporalMetrics" [] o.lvl = "E" -> "NoEnvironmentalMetrics"
  IN IF o.nil THEN (IF o.fam = "v2" /\ q = "Encode" THEN "NoBaseMetrics" ELSE nilKind)
     ELSE IF o.fam = "v3"
     THEN (IF o.ver \notin V3Versions THEN "NotSupportVer"
           ELSE IF UnknownIn(o, V3BaseNames) THEN "NoBaseMetrics"
           ELSE IF o.lvl # "B" /\ UnknownIn(o, V3TempNames) THEN "InvalidValue"
           ELSE IF o.lvl = "E" /\ UnknownIn(o, V3EnvNames) THEN "InvalidValue"
           ELSE "")
     ELSE (IF UnknownIn(o, V2BaseNames) THEN "NoBaseMetrics"
           ELSE IF o.lvl # "B" /\ GroupPresentIn(o, "T") /\ UnknownIn(o, V2TempNames) THEN "NoTemporalMetrics"
           ELSE IF o.lvl = "E" /\ GroupPresentIn(o, "E") /\ UnknownIn(o, V2EnvNames) THEN "NoEnvironmentalMetrics"
           ELSE "")

(***************************************************************************)
(* The abstract machine, used by MC_Objects to enumerate receiver states   *)
(***************************************************************************)
SetField(o, n, c) == [o EXCEPT !.f[n] = c]
SetVer(o, v) == [o EXCEPT !.ver = v]
\* Decode through a fresh or nil receiver: accepted -> the decoded object, rejected -> no object
DecodeResult(fam, lvl, s) == IF Accepts(fam, lvl, s) THEN Decoded(fam, lvl, s) ELSE NilObj(fam, lvl)
=============================================================================
