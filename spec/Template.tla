------------------------------ MODULE Template ------------------------------
(***************************************************************************)
(* Template export (C19): a mini-language of text/template sources whose   *)
(* rendering over a report is specified here, independent of the Go        *)
(* implementation.  A template is a sequence of segments; Source gives its *)
(* text, Render its output or "ERR" (invalid template: no output at all).  *)
(*                                                                         *)
(* rep: the flattened report: own and embedded string fields by path, and  *)
(* "^Name" = what the unqualified name resolves to (shallowest field).     *)
(***************************************************************************)
EXTENDS Integers, Sequences, SequencesExt, FiniteSets, TLC

ERR == "<<invalid template>>"

\* field references offered by the alphabet: unqualified names and qualified paths
Unqualified == {"Vector", "Version", "BaseScore", "SeverityValue", "AVValue", "TemporalScore", "EValue", "EnvironmentalScore", "MAVValue", "CRName"}
Qualified == {"BaseReport.Vector", "BaseReport.SeverityValue", "TemporalReport.Vector", "TemporalReport.BaseReport.BaseScore", "TemporalReport.EValue"}

\* the value a field reference evaluates to on a report of level lvl, or ERR (no such field)
FieldValue(lvl, rep, ref) ==
  IF ref \in Unqualified
  THEN (IF ("^" \o ref) \in DOMAIN rep THEN rep["^" \o ref] ELSE ERR)
  ELSE LET full == IF lvl = "E" /\ SubSeq(ref, 1, 11) = "BaseReport."      \* promoted through TemporalReport
                   THEN "TemporalReport." \o ref ELSE ref
       IN IF full \in DOMAIN rep THEN rep[full] ELSE ERR

\* segment kinds
ParseErrorKinds == {"nofunc", "unclosed", "strayend", "badpipe"}
Source(seg) ==
  CASE seg.k = "lit" -> seg.t
    [] seg.k = "field" -> "{{." \o seg.f \o "}}"
    [] seg.k = "if" -> "{{if ." \o seg.f \o "}}yes{{else}}no{{end}}"
    [] seg.k = "with" -> "{{with ." \o seg.f \o "}}[{{.}}]{{end}}"
    [] seg.k = "printf" -> "{{printf \"%s\" ." \o seg.f \o "}}"
    [] seg.k = "pipe" -> "{{." \o seg.f \o " | printf \"<%s>\"}}"
    [] seg.k = "quoted" -> "{{\"q\"}}"
    [] seg.k = "comment" -> "{{/* c */}}"
    [] seg.k = "trim" -> " {{- \"t\" -}} "
    [] seg.k = "range" -> "{{range ." \o seg.f \o "}}x{{end}}"
    [] seg.k = "nofield" -> "{{.NoSuchField}}"
    [] seg.k = "nofunc" -> "{{nosuchfunc .Vector}}"
    [] seg.k = "unclosed" -> "{{.Vector"
    [] seg.k = "strayend" -> "{{end}}"
    [] seg.k = "badpipe" -> "{{.Vector | nosuchfunc}}"

\* output of one segment, or ERR for an execution error
Eval(lvl, rep, seg) ==
  LET v == IF "f" \in DOMAIN seg THEN FieldValue(lvl, rep, seg.f) ELSE ""
  IN CASE seg.k = "lit" -> seg.t
       [] seg.k = "field" -> v
       [] seg.k = "if" -> IF v = ERR THEN ERR ELSE IF v # "" THEN "yes" ELSE "no"
       [] seg.k = "with" -> IF v = ERR THEN ERR ELSE IF v # "" THEN "[" \o v \o "]" ELSE ""
       [] seg.k = "printf" -> v
       [] seg.k = "pipe" -> IF v = ERR THEN ERR ELSE "<" \o v \o ">"
       [] seg.k = "quoted" -> "q"
       [] seg.k = "comment" -> ""
       [] seg.k = "trim" -> "t"
       [] seg.k = "range" -> ERR          \* range over a string: execution error
       [] seg.k = "nofield" -> ERR
       [] OTHER -> ERR

SourceOf(segs) == FoldLeft(LAMBDA acc, i : acc \o Source(segs[i]), "", [i \in 1..Len(segs) |-> i])

\* " {{- x -}} " trims the white space of its neighbours: the alphabet's literals carry no
\* white space at their ends, so only the blanks of the trim segment itself disappear
Render(lvl, rep, segs) ==
  IF \E i \in 1..Len(segs) : segs[i].k \in ParseErrorKinds THEN ERR
  ELSE LET outs == [i \in 1..Len(segs) |-> Eval(lvl, rep, segs[i])]
       IN IF \E i \in 1..Len(segs) : outs[i] = ERR THEN ERR
          ELSE FoldLeft(LAMBDA acc, i : acc \o outs[i], "", [i \in 1..Len(segs) |-> i])

Alphabet ==
  {[k |-> "lit", t |-> "score="], [k |-> "lit", t |-> "{ }"], [k |-> "lit", t |-> "} }"],
   [k |-> "quoted"], [k |-> "comment"], [k |-> "trim"], [k |-> "nofield"], [k |-> "nofunc"], [k |-> "unclosed"],
   [k |-> "strayend"], [k |-> "badpipe"]}
  \cup {[k |-> "field", f |-> f] : f \in Unqualified \cup Qualified}
  \cup {[k |-> kk, f |-> f] : kk \in {"if", "with", "printf", "pipe", "range"}, f \in {"Vector", "EValue", "BaseReport.Vector"}}
=============================================================================
