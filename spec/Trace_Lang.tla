----------------------------- MODULE Trace_Lang -----------------------------
(***************************************************************************)
(* Validates recorded Decode outcomes against the property layer Vector:   *)
(*   C07 / C08  ok  <=>  Accepts(fam, level, s); rejected => no object     *)
(*   C09        fields (and version, v2 group emptiness) = Fields(...);    *)
(*              two spellings of one token set are indistinguishable       *)
(*   C10        Encode = Canonical, String = Encode, v2 encoding = input,  *)
(*              decode(encode(x)) has the same fields, scores, encoding    *)
(*   C11        a rejection matches exactly one exported sentinel, which   *)
(*              names a defect the input has (the one, if only one kind)   *)
(*   C12        no panic, object xor error                                 *)
(*   C14        lower-level views = independent decode of the projection   *)
(* Event k = "dec" (see harness/lang.go decEvent), k = "pair".             *)
(***************************************************************************)
EXTENDS TraceBase, Decoder


LowerLevels(L) == CASE L = "B" -> {} [] L = "T" -> {"B"} [] L = "E" -> {"B", "T"}

AcceptVerdict(ev, acc) ==
  IF ev.panic THEN "panic:Decode panicked on '" \o ev.s \o "'"
  ELSE IF ev.ok # acc
       THEN (IF ev.ok THEN "accept:" \o ev.fam \o " " \o ev.lvl \o " decoder accepted '" \o ev.s \o "'"
             ELSE "accept:" \o ev.fam \o " " \o ev.lvl \o " decoder rejected well-formed '" \o ev.s \o "'")
  ELSE IF ~ev.ok /\ ev.obj THEN "accept:rejected but a metrics object was returned for '" \o ev.s \o "'"
  ELSE IF ev.ok /\ ~ev.obj THEN "accept:accepted but no metrics object for '" \o ev.s \o "'"
  ELSE "ok"

FieldsVerdict(ev) ==
  LET fam == ev.fam
      L == ev.lvl
      W == WrittenAll(fam, ev.s)
      bad == {n \in NameSet(fam, L) :
                IF fam = "v3" THEN ev.f[n] # (IF W[n] = "-" THEN "X" ELSE W[n])
                ELSE W[n] # "-" /\ ev.f[n] # W[n]}
  IN IF bad # {} THEN LET n == CHOOSE x \in bad : TRUE
                     IN "fields:" \o n \o " holds " \o ev.f[n] \o " for '" \o ev.s \o "'"
     ELSE IF fam = "v3" /\ ev.ver # VersionOf(ev.s) THEN "fields:version " \o ev.ver \o " for '" \o ev.s \o "'"
     ELSE IF fam = "v2" /\ L # "B" /\ ev.tempEmpty # ~GroupPresent(fam, ev.s, "T") THEN "fields:temporal group emptiness for '" \o ev.s \o "'"
     ELSE IF fam = "v2" /\ L = "E" /\ ev.envEmpty # ~GroupPresent(fam, ev.s, "E") THEN "fields:environmental group emptiness for '" \o ev.s \o "'"
     \* the harness reads the fields again after it has asked its queries of the object and its views, and
     \* reports them (f2) only when they are no longer the ones read right after Decode
     ELSE IF Has(ev, "f2") THEN "fields:the fields decoded from '" \o ev.s \o "' changed while the object was queried"
     ELSE "ok"

EncVerdict(ev) ==
  LET c == Canonical(ev.fam, ev.lvl, ev.s)
  IN IF ~ev.own.encok THEN "encode:Encode fails on the object decoded from '" \o ev.s \o "'"
     ELSE IF ev.own.enc # c THEN "encode:'" \o ev.own.enc \o "' is not the canonical '" \o c \o "'"
     ELSE IF ev.own.str # ev.own.enc THEN "encode:String() '" \o ev.own.str \o "' differs from Encode() '" \o ev.own.enc \o "'"
     ELSE IF Has(ev, "views") /\ \E L2 \in DOMAIN ev.views : ev.views[L2].str # ev.views[L2].enc
          THEN "encode:String() of a lower-level view of '" \o ev.s \o "' differs from its Encode()"
     ELSE IF ev.fam = "v2" /\ ev.own.enc # ev.s THEN "encode:v2 encoding differs from the input '" \o ev.s \o "'"
     ELSE IF ~Has(ev, "re") THEN "harness:no re-decode recorded"
     ELSE IF ~ev.re.ok THEN "encode:decoding the encoding '" \o ev.own.enc \o "' fails"
     ELSE IF ev.re.f # ev.f THEN "encode:decode(encode(x)) has other fields for '" \o ev.s \o "'"
     ELSE IF ev.re.own # ev.own THEN "encode:decode(encode(x)) has another score/severity/encoding for '" \o ev.s \o "'"
     ELSE "ok"

ErrVerdict(ev, D) ==
  IF ev.ok THEN (IF ev.sent = <<>> THEN "ok" ELSE "harness:sentinels on success")
  ELSE LET S == SentinelsOf(D)
       IN IF Len(ev.sent) # 1
          THEN "sentinel:error for '" \o ev.s \o "' matches " \o ToString(Len(ev.sent)) \o " exported sentinels"
          ELSE IF ev.sent[1] \notin S
          THEN "sentinel:" \o ev.sent[1] \o " reported for '" \o ev.s \o "' which has no such defect"
          ELSE "ok"        \* |S| = 1 forces the one kind; otherwise any present kind may be reported

ViewVerdict(ev) ==
  LET bad == {L2 \in LowerLevels(ev.lvl) :
                LET p == ev.proj[L2] IN ~(p.s = Project(ev.fam, L2, ev.s) /\ p.ok /\ p.v = ev.views[L2])}
  IN IF bad = {} THEN "ok"
     ELSE LET L2 == CHOOSE x \in bad : TRUE
              p == ev.proj[L2]
          IN IF p.s # Project(ev.fam, L2, ev.s) THEN "harness:projection"
             ELSE IF ~p.ok THEN "views:projection '" \o p.s \o "' rejected by the " \o L2 \o " decoder"
             ELSE "views:" \o L2 \o " view of '" \o ev.s \o "' differs from decoding '" \o p.s \o "'"

DecVerdict(ev) ==
  LET D == IF Has(ev, "long") THEN {"MalformedToken"} ELSE Defects(ev.fam, ev.lvl, ev.s)
      acc == D = {}
  IN CASE Has(ev, "long") /\ Pid # "C12" -> "ok"     \* inputs not reproduced in the trace: only C12 judges them
       [] Pid \in {"C07", "C08"} -> AcceptVerdict(ev, acc)
       [] Pid = "C12" -> (IF ev.panic THEN "panic:Decode panicked on '" \o ev.s \o "'"
                          ELSE IF ev.obj # ev.ok THEN "fabricated:object and error disagree for '" \o ev.s \o "'"
                          ELSE IF ~Has(ev, "long") /\ ev.ok # acc THEN "accept:" \o ev.fam \o " " \o ev.lvl \o " decoder verdict on '" \o ev.s \o "'"
                          ELSE "ok")
       [] Pid = "C11" -> (IF ev.panic THEN "ok" ELSE ErrVerdict(ev, D))
       [] Pid = "C09" -> (IF ev.ok /\ acc /\ ev.obj THEN FieldsVerdict(ev) ELSE "ok")
       [] Pid = "C10" -> (IF ev.ok /\ acc /\ ev.obj THEN EncVerdict(ev) ELSE "ok")
       [] Pid = "C14" -> (IF ev.ok /\ acc /\ ev.obj /\ Has(ev, "views") THEN ViewVerdict(ev) ELSE "ok")
       [] OTHER -> "harness:no verdict for this property"

PairVerdict(ev) ==
  LET a == ev.a
      b == ev.b
  IN IF Pid # "C09" THEN "ok"
     ELSE IF ~(Accepts(ev.fam, ev.lvl, a.s) /\ Accepts(ev.fam, ev.lvl, b.s)
               /\ Fields(ev.fam, ev.lvl, a.s) = Fields(ev.fam, ev.lvl, b.s)
               /\ (ev.fam = "v3" => VersionOf(a.s) = VersionOf(b.s)))
          THEN "harness:pair is not two spellings of one token set"
     ELSE IF ~(a.ok /\ b.ok) THEN "ok"        \* acceptance is C07's business
     ELSE IF a.f # b.f \/ a.ver # b.ver THEN "fields:'" \o a.s \o "' and '" \o b.s \o "' decode to different fields"
     ELSE IF a.own # b.own THEN "fields:'" \o a.s \o "' and '" \o b.s \o "' differ in score, severity or encoding"
     ELSE "ok"

\* MODEL-DRIFT diagnostic (never a violation): the decodeOne calls observed through the hook are
\* the tokens the operational model Decoder!Decode processes, in order, up to where it stops
\* state of the operational decoder before token k (1-based) and after the last processed one
StateAfter(fam, L, toks, k) ==
  FoldLeft(LAMBDA st, i : LET r == DecodeOne(fam, L, st, toks[i]) IN [names |-> r.names, f |-> r.f],
           InitState(fam, L), [i \in 1..k |-> i])
SnapMatches(fam, L, sn, st) ==
  LET names == NamesUpTo(fam, L)
      codes == Split(sn.f, ",")
  IN /\ Len(codes) = Len(names)
     /\ \A i \in 1..Len(names) : codes[i] = st.f[names[i]]
     /\ (sn.names = "~" \/ (IF sn.names = "" THEN {} ELSE Range(Split(sn.names, ","))) = st.names)
StepsVerdict(ev) ==
  LET r == Decode(ev.fam, ev.lvl, ev.s)
      toks == TokensOf(ev.fam, ev.s)
      n == Len(ev.toks)
  IN IF n # r.steps \/ (\E i \in 1..n : ev.toks[i] # toks[i])
     THEN "drift:decodeOne was called " \o ToString(n) \o " times on '" \o ev.s \o "', the operational model takes " \o ToString(r.steps) \o " steps"
     ELSE IF Len(ev.snaps) # n + 1 THEN "harness:snapshots per token"
     ELSE IF \E k \in 1..(n + 1) : ~SnapMatches(ev.fam, ev.lvl, ev.snaps[k], StateAfter(ev.fam, ev.lvl, toks, k - 1))
     THEN LET k == CHOOSE j \in 1..(n + 1) : ~SnapMatches(ev.fam, ev.lvl, ev.snaps[j], StateAfter(ev.fam, ev.lvl, toks, j - 1))
          IN "drift:object state after " \o ToString(k - 1) \o " tokens of '" \o ev.s \o "' is (" \o ev.snaps[k].f \o " | " \o ev.snaps[k].names \o "), not what the operational model predicts"
     ELSE IF ev.ok # r.ok THEN "drift:Decode verdict of the operational model on '" \o ev.s \o "'"
     ELSE "ok"

Verdict(ev) ==
  CASE ev.k = "dec" -> DecVerdict(ev)
    [] ev.k = "steps" -> StepsVerdict(ev)
    [] ev.k = "pair" -> PairVerdict(ev)
    [] OTHER -> "harness:unknown event"

Init == LoadTrace /\ TraceInit
Next == (l <= Len(Trace) /\ Step(Verdict(Trace[l]))) \/ Finish
Spec == Init /\ [][Next]_<<l, nbad>>
=============================================================================
