----------------------------- MODULE Trace_Grid -----------------------------
(***************************************************************************)
(* C06 (tenth grid, printed form, severity band) and C13 (relations        *)
(* between the levels of one vector) on observation tuples.                *)
(*                                                                         *)
(* Event k = "g": fam "v3" | "v2" | "v3r" (v3 report score field), lvl,    *)
(*   obs = round(score*10), ex = the float is exactly obs/10, str = the    *)
(*   printed score (for "v3r": the report field), sev = Severity().String()*)
(*   of the same level, neg = the specification's own v2 environmental     *)
(*   equation is negative for the vector (looked up in MC_V2Neg's list).   *)
(* Event k = "rel": rel, ver, scope, lo, hi (tenths; 99999 = not a tenth). *)
(***************************************************************************)
EXTENDS TraceBase, CvssTables


GridVerdict(ev) ==
  IF ~(ev.obs \in 0..100) THEN "grid:" \o ev.fam \o " " \o ev.lvl \o " score outside 0.0..10.0: " \o ev.str
  ELSE IF ~ev.ex THEN "grid:" \o ev.fam \o " " \o ev.lvl \o " score is not a multiple of 0.1: " \o ev.str
  ELSE IF ev.str \notin Prints(ev.obs) THEN "grid:" \o ev.fam \o " " \o ev.lvl \o " score " \o TenthStr(ev.obs) \o " prints as " \o ev.str
  ELSE IF ev.fam \in {"v3", "v3r"} /\ ev.sev # V3SeverityBand(ev.obs)
       THEN "severity:v3 " \o ev.lvl \o " " \o ev.sev \o " for score " \o ev.str
  ELSE IF ev.fam = "v2" /\ ev.sev # V2SeverityBand(ev.obs)
       THEN "severity:v2 " \o ev.lvl \o " " \o ev.sev \o " for score " \o ev.str
  ELSE "ok"

RelOk(ev) ==
  CASE ev.rel = "temporalAllND=base" -> ev.lo = ev.hi /\ ev.lo \in 0..100
    [] ev.rel = "envAllND=temporal" -> ev.lo \in 0..100 /\ ev.hi \in 0..100 /\ ((ev.ver = "3.1" /\ ev.scope = "C") \/ ev.lo = ev.hi)
    [] ev.rel = "temporal<=base" -> ev.lo <= ev.hi /\ ev.lo \in 0..100
    [] ev.rel = "TD:N=>0" -> ev.lo = 0
    [] OTHER -> FALSE

Verdict(ev) ==
  CASE ev.k = "g" -> GridVerdict(ev)
    [] ev.k = "rel" -> IF RelOk(ev) THEN "ok"
                       ELSE "relation:" \o ev.rel \o " fails with " \o TenthStr(ev.lo) \o " vs " \o TenthStr(ev.hi) \o " (CVSS " \o ev.ver \o ")"
    [] OTHER -> "harness:unknown event"

Init == LoadTrace /\ TraceInit
Next == (l <= Len(Trace) /\ Step(Verdict(Trace[l]))) \/ Finish
Spec == Init /\ [][Next]_<<l, nbad>>
=============================================================================
