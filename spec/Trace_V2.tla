------------------------------ MODULE Trace_V2 ------------------------------
(***************************************************************************)
(* Validates recorded v2 score observations against V2Score: C04 (base,    *)
(* temporal), C05 (environmental), C06 (grid / severity), C13 relations.   *)
(*                                                                         *)
(* Event k = "v2": b = 6 base codes, t = <<>> or 3 temporal codes, e = <<>> *)
(* or 5 environmental codes (CDP TD CR IR AR), lvl "B"|"T"|"E", obs, ex,   *)
(* str, sev.  Event k = "v2o": outer steps on an OBSERVED adjusted base    *)
(* score ab (tenths): t, e = <<CDP, TD>>, obs.                             *)
(* Verdict "kf1:..." marks an observation outside the FIRST equations that *)
(* is exactly a value of the named Round2 deviation (known finding KF-1).  *)
(***************************************************************************)
EXTENDS TraceBase, V2Score

Tabs == TLCGet(43)

CodesOk(names, codes) == Len(codes) = Len(names) /\ \A i \in 1..Len(names) : codes[i] \in V2CodeSet(names[i])
WellFormed(ev) ==
  /\ CodesOk(V2BaseNames, ev.b)
  /\ ev.t = <<>> \/ CodesOk(V2TempNames, ev.t)
  /\ ev.e = <<>> \/ CodesOk(V2EnvNames, ev.e)

ExplKey(b) == ToString(W2AV[b[1]]) \o "," \o ToString(W2AC[b[2]]) \o "," \o ToString(W2Au[b[3]])
KeyStr(k, b) == ToString(k[1]) \o "," \o ToString(k[2]) \o "," \o ToString(k[3]) \o "|" \o ExplKey(b)
BaseKey(b) == KeyStr(Sort3v2(W2CIA[b[4]] * 1000, W2CIA[b[5]] * 1000, W2CIA[b[6]] * 1000), b)
AdjKey(b, e) == KeyStr(Sort3v2(Fac2(e[3], b[4]), Fac2(e[4], b[5]), Fac2(e[5], b[6])), b)
AsSet(seq) == Range(seq)

\* allowed sets under the FIRST equations (spec) and under Round2 (r2)
Allowed(ev, which) ==
  LET bt == Tabs.base[BaseKey(ev.b)]
      bs == AsSet(bt[which])
  IN CASE ev.lvl = "B" -> bs
       [] ev.lvl = "T" -> V2TemporalSet(bs, ev.t)
       [] ev.lvl = "E" /\ ev.e = <<>> -> V2TemporalSet(bs, ev.t)
       [] ev.lvl = "E" /\ ev.e # <<>> ->
            LET at == Tabs.adj[AdjKey(ev.b, ev.e)]
                as == AsSet(at[which])
                S == V2EnvOuterSet(as, ev.t, ev.e)
            IN \* a negative adjusted base score is propagated exactly; only where the
               \* environmental equation ITSELF is negative may the library report 0 instead
               S \cup (IF \E x \in S : x < 0 THEN {0} ELSE {})
NegEq(ev) == /\ ev.lvl = "E" /\ ev.e # <<>>
             /\ \E x \in V2EnvOuterSet(AsSet(Tabs.adj[AdjKey(ev.b, ev.e)].spec), ev.t, ev.e) : x < 0

SetStr(S) == LET q == SetToSeq(S) IN TenthStr(q[1]) \o (IF Len(q) > 1 THEN " or " \o TenthStr(q[2]) ELSE "")

ScoreVerdict(ev) ==
  IF ~WellFormed(ev) THEN "harness:malformed event"
  ELSE IF ev.obs \in Allowed(ev, "spec") THEN "ok"
  ELSE IF ev.obs \in Allowed(ev, "r2")
       THEN "kf1:" \o (IF ev.lvl = "E" /\ ev.e # <<>> THEN "adj " \o AdjKey(ev.b, ev.e) ELSE "base " \o BaseKey(ev.b))
  ELSE "score:expected " \o SetStr(Allowed(ev, "spec")) \o " observed " \o ev.str

OuterVerdict(ev) ==
  LET S0 == V2EnvOuterSet({ev.ab}, ev.t, ev.e)
      S == S0 \cup (IF \E x \in S0 : x < 0 THEN {0} ELSE {})
  IN IF ev.obs \in S THEN "ok" ELSE "score:outer steps on " \o TenthStr(ev.ab) \o " expected " \o SetStr(S) \o " observed " \o ev.str

GridVerdict(ev) ==
  IF ~WellFormed(ev) THEN "harness:malformed event"
  ELSE IF NegEq(ev) THEN (IF ev.ex /\ ev.obs \in (-100)..100 /\ ev.str \in Prints(ev.obs) THEN "ok" ELSE "grid:negative-equation score " \o ev.str)
  ELSE IF ~(ev.obs \in 0..100) THEN "grid:score outside 0.0..10.0: " \o ev.str
  ELSE IF ~ev.ex THEN "grid:score is not a multiple of 0.1: " \o ev.str
  ELSE IF ev.str \notin Prints(ev.obs) THEN "grid:prints as " \o ev.str
  ELSE IF ev.sev # V2SeverityBand(ev.obs) THEN "severity:" \o ev.sev \o " for score " \o ev.str
  ELSE "ok"

RelOk(ev) ==
  CASE ev.rel = "temporalAllND=base" -> ev.lo = ev.hi
    [] ev.rel = "temporal<=base" -> ev.lo <= ev.hi
    [] ev.rel = "TD:N=>0" -> ev.lo = 0
    [] OTHER -> FALSE

Verdict(ev) ==
  CASE ev.k = "v2" /\ Pid \in {"C04", "C05"} -> ScoreVerdict(ev)
    [] ev.k = "v2" /\ Pid = "C06" -> GridVerdict(ev)
    [] ev.k = "v2o" -> IF Pid = "C05" THEN OuterVerdict(ev) ELSE "ok"
    [] ev.k = "rel" -> IF RelOk(ev) THEN "ok" ELSE "relation:" \o ev.rel
    [] OTHER -> "harness:unknown event"

Init == /\ TLCSet(43, JsonDeserialize(IOEnv.VERIF_GEN \o "/v2tabs.json"))
        /\ LoadTrace
        /\ TraceInit
Next == (l <= Len(Trace) /\ Step(Verdict(Trace[l]))) \/ Finish
Spec == Init /\ [][Next]_<<l, nbad>>
=============================================================================
