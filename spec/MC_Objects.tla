----------------------------- MODULE MC_Objects -----------------------------
(***************************************************************************)
(* Enumerates receiver states of the Objects machine: for each of the six  *)
(* object kinds a construction prefix                                      *)
(*     New | NilOf  ->  [Decode(input)]  ->  [SetField | SetVer]           *)
(* over a small alphabet of inputs (accepted in several spellings, failing *)
(* at the prefix, at the first / last token, at the completeness check,    *)
(* with a deferred unsupported-metric error, ...).  The harness replays    *)
(* every prefix on the real types and then applies the whole battery of    *)
(* queries to the receiver and to the returned object; Trace_Objects       *)
(* validates every step.  Invariants: the C12 validity notion behaves as   *)
(* the property says on the abstract machine.                              *)
(***************************************************************************)
EXTENDS Objects, TLC, IOUtils

VARIABLES fam, lvl, hist, recv, obj
vars == <<fam, lvl, hist, recv, obj>>

V3In == <<"CVSS:3.1/AV:N/AC:L/PR:N/UI:R/S:C/C:H/I:L/A:N",
          "CVSS:3.0/A:H/E:F/I:H/C:L/S:U/UI:N/PR:L/AC:H/AV:P/RC:R",
          "CVSS:3.1/AV:N/AC:L/PR:N/UI:N/S:U/C:H/I:H/A:H/E:X/RL:O/RC:X/CR:H/IR:X/AR:L/MAV:A/MAC:X/MPR:L/MUI:X/MS:C/MC:X/MI:N/MA:H",
          "CVSS:3.0/AV:L/AC:L/PR:H/UI:N/S:U/C:H/I:H/MA:L/CR:M/A:H",
          "",
          "CVSS:2.0/AV:N/AC:L/PR:N/UI:N/S:U/C:H/I:H/A:H",
          "CVSS:3.1/AV:N/AC:L/PR:N/UI:N/S:U/C:H/I:H",
          "CVSS:3.1/AV:N/AC:L/PR:N/UI:N/S:U/C:H/I:H/A:Z",
          "CVSS:3.1/AV:Z/AC:L/PR:N/UI:N/S:U/C:H/I:H/A:H",
          "CVSS:3.1/AV:N/AC:L/PR:N/UI:N/S:U/C:H/I:H/A:H/AV:N",
          "CVSS:3.1/AV:N/AC:L/PR:N/UI:N/S:U/C:H/I:H/A:H/XX:N",
          "CVSS:3.1/AV:N//AC:L/PR:N/UI:N/S:U/C:H/I:H/A:H",
          "CVSS:3.1/AV:N/AC:L/PR:N/UI:N/S:U/C:H/I:H/A:H/E:Q",
          "CVSS:3.1/E:H/RL:U",
          "CVSS:3.1/A:H",
          "CVSS:3.1/RL:U",
          "CVSS:3.0">>
V2In == <<"AV:N/AC:L/Au:N/C:P/I:P/A:C",
          "AV:L/AC:H/Au:M/C:N/I:N/A:P/E:POC/RL:OF/RC:UC",
          "AV:A/AC:M/Au:S/C:C/I:C/A:C/CDP:LM/TD:M/CR:H/IR:ND/AR:L",
          "AV:N/AC:L/Au:N/C:C/I:C/A:C/E:F/RL:W/RC:C/CDP:H/TD:H/CR:M/IR:M/AR:H",
          "",
          "AV:N/AC:L/Au:N/C:P/I:P",
          "AV:N/AC:L/Au:N/C:P/I:P/A:Z",
          "AV:Z/AC:L/Au:N/C:P/I:P/A:C",
          "AC:L/AV:N/Au:N/C:P/I:P/A:C",
          "AV:N/AC:L/Au:N/C:P/I:P/A:C/E:H",
          "AV:N/AC:L/Au:N/C:P/I:P/A:C/E:H/RL:U/RC:C/CDP:H",
          "AV:N/AC:L/Au:N/C:P/I:P/A:C/A:C",
          "AV:N/AC:L/Au:N/C:P/I:P/A:C/XX:N",
          "CVSS:2.0/AV:N/AC:L/Au:N/C:P/I:P/A:C",
          "A:C",
          "AV:N/AC:L/Au:N/C:P/I:P/A:C/E:H/RL:U/RC:ZZ",
          "RL:U">>
Inputs(f) == IF f = "v3" THEN V3In ELSE V2In

Init == /\ fam \in {"v3", "v2"} /\ lvl \in {"B", "T", "E"}
        /\ hist = <<>> /\ recv = <<>> /\ obj = <<>>
Start == /\ hist = <<>>
         /\ \/ hist' = <<[op |-> "new"]>> /\ obj' = Fresh(fam, lvl)
            \/ hist' = <<[op |-> "nil"]>> /\ obj' = NilObj(fam, lvl)
         /\ recv' = obj' /\ UNCHANGED <<fam, lvl>>
Dec == /\ Len(hist) = 1
       /\ \E i \in 1..Len(Inputs(fam)) :
            /\ hist' = Append(hist, [op |-> "decode", s |-> Inputs(fam)[i]])
            /\ obj' = DecodeResult(fam, lvl, Inputs(fam)[i])
       /\ UNCHANGED <<fam, lvl, recv>>
Set == /\ Len(hist) \in 1..2 /\ hist[Len(hist)].op # "set" /\ ~obj.nil
       /\ \/ \E n \in NameSet(fam, lvl) :
               \E c \in {UnknownCode} \cup (IF n \in {"AV", "C", "E", "RC", "CR", "MS", "TD", "CDP"}
                                              THEN LET cs == IF fam = "v3" THEN V3Codes[n] ELSE V2Codes[n]
                                                   IN {cs[1], cs[Len(cs)]} \ {obj.f[n]}      \* a defined value and the Not Defined one
                                              ELSE {}) :
                  /\ hist' = Append(hist, [op |-> "set", n |-> n, c |-> c])
                  /\ obj' = SetField(obj, n, c)
          \* every metric of one group reset to unknown / set to a defined value at once
          \/ \E g \in LevelGroups(lvl), c \in {UnknownCode, "first"} :
               /\ hist' = Append(hist, [op |-> "setgroup", g |-> g, c |-> c])
               /\ obj' = [obj EXCEPT !.f = [n \in DOMAIN obj.f |->
                                             IF n \in Range(GroupNames(fam, g))
                                             THEN (IF c = UnknownCode THEN UnknownCode ELSE (IF fam = "v3" THEN V3Codes[n] ELSE V2Codes[n])[1])
                                             ELSE obj.f[n]]]
          \/ /\ fam = "v3"
             /\ \E v \in {"?", "3.0", "3.1"} \ {obj.ver} :
                  /\ hist' = Append(hist, [op |-> "set", n |-> "Ver", c |-> v])
                  /\ obj' = SetVer(obj, v)
       /\ UNCHANGED <<fam, lvl, recv>>
\* a second Decode into the same receiver (outside the listed properties; replayed for the
\* MODEL-DRIFT comparison with Decoder!DecodeFrom)
Dec2 == /\ Len(hist) = 2 /\ hist[2].op = "decode" /\ hist[1].op = "new"
        /\ \E i \in 1..Len(Inputs(fam)) : hist' = Append(hist, [op |-> "decode2", s |-> Inputs(fam)[i]])
        /\ UNCHANGED <<fam, lvl, recv, obj>>
Next == Start \/ Dec \/ Set \/ Dec2
Spec == Init /\ [][Next]_vars

(***************************************************************************)
(* Lemmas on the abstract machine                                          *)
(***************************************************************************)
Built == hist # <<>>
NilAndFreshInvalid == (Built /\ Len(hist) = 1) => Invalid(obj)
DecodedIsValid == (Built /\ hist[Len(hist)].op \in {"decode", "decode2"} /\ ~obj.nil) => ~Invalid(obj)
RejectedMeansNoObject == (Built /\ hist[Len(hist)].op = "decode") => (obj.nil <=> ~Accepts(fam, lvl, hist[Len(hist)].s))
\* resetting a metric of the queried level invalidates the object (v2: only while its group is present)
ResetInvalidates ==
  /\ (Built /\ hist[Len(hist)].op = "set" /\ hist[Len(hist)].c = UnknownCode)
        => (hist[Len(hist)].n \in RelevantNames(obj) \cup {"Ver"} => Invalid(obj))
  /\ (Built /\ hist[Len(hist)].op = "setgroup" /\ hist[Len(hist)].c = UnknownCode)
        => ((hist[Len(hist)].g = "B" \/ fam = "v3" \/ GroupPresentIn(obj, hist[Len(hist)].g)) => Invalid(obj))
\* an invalid lower view makes every higher view invalid
ViewsMonotone == (Built /\ ~obj.nil) =>
   \A via \in LevelGroups(lvl) \ {lvl} : Invalid(ViewOf(obj, via)) => Invalid(obj)
=============================================================================
