SPECIFICATION Spec
CONSTANT G = {"g1", "g2", "g3"}
CONSTANT Variant = "PoolDoublePut"
INVARIANT NoDataRace
INVARIANT SequentialResults
INVARIANT SharedStateConstant
CHECK_DEADLOCK FALSE
