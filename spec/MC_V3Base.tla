----------------------------- MODULE MC_V3Base -----------------------------
(***************************************************************************)
(* Exhaustive model of the v3 base score: one state per (version, base     *)
(* vector), 2 * 2,592 = 5,184 states.  TLC checks the spec-level           *)
(* invariants and the state dump is the table the conformance harness      *)
(* replays into the real library (C01) and that Trace_V3 loads.            *)
(***************************************************************************)
EXTENDS V3Score

VARIABLES ver, b, score
vars == <<ver, b, score>>

BaseSet == [AV : V3CodeSet("AV"), AC : V3CodeSet("AC"), PR : V3CodeSet("PR"),
            UI : V3CodeSet("UI"), S : V3CodeSet("S"), C : V3CodeSet("C"),
            I : V3CodeSet("I"), A : V3CodeSet("A")]

\* TLC computes initial states and the successors of one state on a single
\* worker, so the vector is chosen in one cheap step (score = -1, "pending")
\* and evaluated in a second step that all workers share.
Init == InstallV3Tables /\ ver = "-" /\ b = <<>> /\ score = -2
Choose == /\ score = -2
          /\ ver' \in V3Versions
          /\ b' \in BaseSet
          /\ score' = -1
Evaluate == /\ score = -1
            /\ score' = V3BaseTenth(ver, WithDefaults(b))
            /\ UNCHANGED <<ver, b>>
Next == Choose \/ Evaluate
Spec == Init /\ [][Next]_vars

Done == score >= 0
InGrid == score \in -2..100
ZeroIffNoImpact == Done => ((score = 0) <=> (b.C = "N" /\ b.I = "N" /\ b.A = "N"))
\* the two round-up definitions agree on every value that occurs, so the
\* library's single roundUp can be judged against the rule of the vector's own version
RoundupsAgree == Done => score = V3BaseTenth(IF ver = "3.0" THEN "3.1" ELSE "3.0", WithDefaults(b))

\* published examples (FIRST v3.1 examples document and user guide)
Anchor(v, bb, t) == (Done /\ ver = v /\ b = bb) => score = t
AnchorsMatch ==
  /\ Anchor("3.1", [AV |-> "N", AC |-> "L", PR |-> "N", UI |-> "N", S |-> "U", C |-> "H", I |-> "H", A |-> "H"], 98)
  /\ Anchor("3.0", [AV |-> "N", AC |-> "L", PR |-> "N", UI |-> "N", S |-> "C", C |-> "H", I |-> "H", A |-> "H"], 100)
  /\ Anchor("3.1", [AV |-> "N", AC |-> "L", PR |-> "N", UI |-> "R", S |-> "C", C |-> "L", I |-> "L", A |-> "N"], 61)
  /\ Anchor("3.1", [AV |-> "N", AC |-> "L", PR |-> "L", UI |-> "N", S |-> "C", C |-> "L", I |-> "L", A |-> "N"], 64)
  /\ Anchor("3.0", [AV |-> "N", AC |-> "H", PR |-> "N", UI |-> "R", S |-> "U", C |-> "L", I |-> "N", A |-> "N"], 31)
  /\ Anchor("3.1", [AV |-> "L", AC |-> "L", PR |-> "H", UI |-> "N", S |-> "U", C |-> "N", I |-> "L", A |-> "N"], 23)
  /\ Anchor("3.1", [AV |-> "N", AC |-> "L", PR |-> "L", UI |-> "N", S |-> "C", C |-> "H", I |-> "H", A |-> "H"], 99)
  /\ Anchor("3.0", [AV |-> "P", AC |-> "L", PR |-> "N", UI |-> "N", S |-> "U", C |-> "H", I |-> "H", A |-> "H"], 68)
  /\ Anchor("3.1", [AV |-> "N", AC |-> "L", PR |-> "N", UI |-> "N", S |-> "U", C |-> "H", I |-> "N", A |-> "N"], 75)
  /\ Anchor("3.1", [AV |-> "A", AC |-> "L", PR |-> "N", UI |-> "N", S |-> "C", C |-> "H", I |-> "N", A |-> "H"], 93)
=============================================================================
