------------------------------- MODULE Report -------------------------------
(***************************************************************************)
(* The v3 report layer (property layer for C17, C18):                      *)
(*   ExpectedReport  which value every exported field of a BaseReport /    *)
(*                   TemporalReport / EnvironmentalReport must show, given *)
(*                   what the metrics object reports and the display-name  *)
(*                   table (field wiring, shadowing, embedded reports);    *)
(*   NamesOk         the relational specification of the display names.    *)
(* Display strings are never pinned: the expected title / value name is    *)
(* what the names package itself returns for the like-named metric and the *)
(* object's own field value (recorded in the event).                       *)
(***************************************************************************)
EXTENDS Integers, Sequences, FiniteSets, CvssTables, TLC

TenthStrR(t) == ToString(t \div 10) \o (IF t % 10 = 0 THEN "" ELSE "." \o ToString(t % 10))

\* fields of one report level under the path prefix p; o = observation of that level
\* (enc, sc, sev = localized severity name), nm = display names per metric
BaseFields(p, ver, o, nm) ==
  [f \in {p \o x : x \in {"Version", "Vector", "BaseMetrics", "BaseMetricValue", "BaseScore", "SeverityName", "SeverityValue"}
                          \cup {m \o "Name" : m \in Range(V3BaseNames)} \cup {m \o "Value" : m \in Range(V3BaseNames)}} |->
     CASE f = p \o "Version" -> ver
       [] f = p \o "Vector" -> o.enc
       [] f = p \o "BaseMetrics" -> nm["group:Base"].t
       [] f = p \o "BaseMetricValue" -> nm["group:Base"].v
       [] f = p \o "BaseScore" -> TenthStrR(o.sc)
       [] f = p \o "SeverityName" -> nm["Severity"].t
       [] f = p \o "SeverityValue" -> o.sev
       [] OTHER -> LET m == CHOOSE x \in Range(V3BaseNames) : f = p \o x \o "Name" \/ f = p \o x \o "Value"
                   IN IF f = p \o m \o "Name" THEN nm[m].t ELSE nm[m].v]
TemporalFields(p, o, nm) ==
  [f \in {p \o x : x \in {"Vector", "TemporalMetrics", "TemporalMetricValue", "TemporalScore", "SeverityName", "SeverityValue"}
                          \cup {m \o "Name" : m \in Range(V3TempNames)} \cup {m \o "Value" : m \in Range(V3TempNames)}} |->
     CASE f = p \o "Vector" -> o.enc
       [] f = p \o "TemporalMetrics" -> nm["group:Temporal"].t
       [] f = p \o "TemporalMetricValue" -> nm["group:Temporal"].v
       [] f = p \o "TemporalScore" -> TenthStrR(o.sc)
       [] f = p \o "SeverityName" -> nm["Severity"].t
       [] f = p \o "SeverityValue" -> o.sev
       [] OTHER -> LET m == CHOOSE x \in Range(V3TempNames) : f = p \o x \o "Name" \/ f = p \o x \o "Value"
                   IN IF f = p \o m \o "Name" THEN nm[m].t ELSE nm[m].v]
EnvFields(p, o, nm) ==
  [f \in {p \o x : x \in {"Vector", "EnvironmentalMetrics", "EnvironmentalMetricValue", "EnvironmentalScore", "SeverityName", "SeverityValue"}
                          \cup {m \o "Name" : m \in Range(V3EnvNames)} \cup {m \o "Value" : m \in Range(V3EnvNames)}} |->
     CASE f = p \o "Vector" -> o.enc
       [] f = p \o "EnvironmentalMetrics" -> nm["group:Environmental"].t
       [] f = p \o "EnvironmentalMetricValue" -> nm["group:Environmental"].v
       [] f = p \o "EnvironmentalScore" -> TenthStrR(o.sc)
       [] f = p \o "SeverityName" -> nm["Severity"].t
       [] f = p \o "SeverityValue" -> o.sev
       [] OTHER -> LET m == CHOOSE x \in Range(V3EnvNames) : f = p \o x \o "Name" \/ f = p \o x \o "Value"
                   IN IF f = p \o m \o "Name" THEN nm[m].t ELSE nm[m].v]

\* "^X": what a template (or FieldByName) sees under the unqualified name X: the
\* shallowest field, i.e. the report's own level shadows the embedded ones
Promoted(lvl, ver, obs, nm) ==
  LET top == obs[lvl]
      base == [f \in {"^Version", "^Vector", "^SeverityName", "^SeverityValue", "^BaseScore", "^AVName", "^AVValue"} |->
                 CASE f = "^Version" -> ver [] f = "^Vector" -> top.enc [] f = "^SeverityName" -> nm["Severity"].t
                   [] f = "^SeverityValue" -> top.sev [] f = "^BaseScore" -> TenthStrR(obs["B"].sc)
                   [] f = "^AVName" -> nm["AV"].t [] f = "^AVValue" -> nm["AV"].v]
      temp == [f \in {"^TemporalScore", "^EName", "^EValue"} |->
                 CASE f = "^TemporalScore" -> TenthStrR(obs["T"].sc) [] f = "^EName" -> nm["E"].t [] f = "^EValue" -> nm["E"].v]
  IN IF lvl = "B" THEN base ELSE base @@ temp

ExpectedReport(lvl, ver, obs, nm) ==
  Promoted(lvl, ver, obs, nm) @@
  (CASE lvl = "B" -> BaseFields("", ver, obs["B"], nm)
     [] lvl = "T" -> TemporalFields("", obs["T"], nm) @@ BaseFields("BaseReport.", ver, obs["B"], nm)
     [] lvl = "E" -> EnvFields("", obs["E"], nm) @@ TemporalFields("TemporalReport.", obs["T"], nm)
                       @@ BaseFields("TemporalReport.BaseReport.", ver, obs["B"], nm))

(***************************************************************************)
(* C18: display names                                                      *)
(***************************************************************************)
NameCodes(m) == IF m = "Severity" THEN V3Severities ELSE IF m \in DOMAIN V3Codes THEN V3CodeSet(m) ELSE {}
IsMetric(m) == m = "Severity" \/ m \in DOMAIN V3Codes
=============================================================================
