------------------------------ MODULE V3Score ------------------------------
(***************************************************************************)
(* The CVSS v3.0 / v3.1 base, temporal and environmental equations of the  *)
(* FIRST specification documents, in exact arithmetic (property layer for  *)
(* C01, C02, C03, C13).  Scores are integers in tenths (0..100).           *)
(*                                                                         *)
(* A v3 vector is a function from the 22 metric names to value codes; a    *)
(* temporal or environmental metric that is not written is "X".            *)
(***************************************************************************)
EXTENDS BigDec, CvssTables, TLC

D1  == DInt(1)
D10 == DInt(10)

(***************************************************************************)
(* Round-up to one decimal.  v3.0: the smallest number with one decimal    *)
(* that is >= the input (exact ceiling).  v3.1: Appendix A's integer rule  *)
(* applied to the exact value.  Both return tenths; input >= 0.            *)
(***************************************************************************)
Roundup30(x) == CeilTenth(x)
Roundup31(x) == LET n == RoundHalfUpScaled(x, 5)
                IN IF n % 10000 = 0 THEN n \div 10000 ELSE (n \div 10000) + 1
Roundup(ver, x) == IF ver = "3.1" THEN Roundup31(x) ELSE Roundup30(x)

(***************************************************************************)
(* Base                                                                    *)
(***************************************************************************)
\* 1 - (1-a)(1-b)(1-c), arguments in millionths
OneMinusProd(a, b, c) ==
  DSub(D1, DMul(DMul(DSub(D1, DOf(a, 6)), DSub(D1, DOf(b, 6))), DSub(D1, DOf(c, 6))))

Iss(m) == OneMinusProd(W3CIA[m.C] * 1000, W3CIA[m.I] * 1000, W3CIA[m.A] * 1000)

ImpactUnchanged(iss) == DMul(DOf(642, 2), iss)
ImpactChanged15(iss) ==            \* v3.0 and v3.1 base; v3.0 environmental
  DSub(DMul(DOf(752, 2), DSub(iss, DOf(29, 3))),
       DMul(DOf(325, 2), DPow(DSub(iss, DOf(2, 2)), 15)))
ImpactChanged13(miss) ==           \* v3.1 environmental
  DSub(DMul(DOf(752, 2), DSub(miss, DOf(29, 3))),
       DMul(DOf(325, 2), DPow(DSub(DMul(miss, DOf(9731, 4)), DOf(2, 2)), 13)))

\* 8.22 * av * ac * pr * ui, weights in thousandths
Exploitability(av, ac, pr, ui) ==
  DMul(DOf(822, 2), DMul(DMul(DOf(av, 3), DOf(ac, 3)), DMul(DOf(pr, 3), DOf(ui, 3))))

(***************************************************************************)
(* Memo tables.  The impact polynomials depend only on the multiset of the *)
(* three impact factors, so TLC evaluates each big polynomial once (10     *)
(* base keys, 84 environmental keys per polynomial) instead of once per    *)
(* vector.  The tables ARE the definitions above, tabulated.               *)
(***************************************************************************)
Sort3(a, b, c) == LET lo == Min2(a, Min2(b, c))
                      hi == Max2(a, Max2(b, c))
                  IN <<lo, a + b + c - lo - hi, hi>>
CiaFacs == {w * 1000 : w \in Range(W3CIA)}                       \* base: millionths
EnvFacs == {r * w : r \in Range(W3Req), w \in Range(W3CIA)}       \* environmental
SortedTriples(S) == {t \in S \X S \X S : t[1] <= t[2] /\ t[2] <= t[3]}
IssTabDef == [t \in SortedTriples(CiaFacs \cup EnvFacs) |-> OneMinusProd(t[1], t[2], t[3])]
MissOfIss(iss) == DMin(iss, DOf(915, 3))
BaseC15TabDef == [t \in SortedTriples(CiaFacs) |-> ImpactChanged15(IssTabDef[t])]
EnvC15TabDef  == [t \in SortedTriples(EnvFacs) |-> ImpactChanged15(MissOfIss(IssTabDef[t]))]
EnvC13TabDef  == [t \in SortedTriples(EnvFacs) |-> ImpactChanged13(MissOfIss(IssTabDef[t]))]

\* TLC re-evaluates a zero-arity definition each time it is reached from inside
\* an operator with parameters, so the tabulated values live in TLC registers:
\* every model's Init starts with InstallV3Tables (evaluated once, visible to
\* all workers) and the equations read the registers.
InstallV3Tables ==
  /\ TLCSet(31, TLCEval(IssTabDef))
  /\ TLCSet(32, TLCEval(BaseC15TabDef))
  /\ TLCSet(33, TLCEval(EnvC15TabDef))
  /\ TLCSet(34, TLCEval(EnvC13TabDef))
IssTab     == TLCGet(31)
BaseC15Tab == TLCGet(32)
EnvC15Tab  == TLCGet(33)
EnvC13Tab  == TLCGet(34)
MissOfKey(t) == MissOfIss(IssTab[t])

\* combine impact and exploitability sub-scores (tenths)
Combine(ver, changed, impact, expl) ==
  IF ~DIsPos(impact) THEN 0
  ELSE LET sum == DAdd(impact, expl)
       IN Roundup(ver, DMin(IF changed THEN DMul(DOf(108, 2), sum) ELSE sum, D10))

V3BaseTenth(ver, m) ==
  LET changed == m.S = "C"
      key     == Sort3(W3CIA[m.C] * 1000, W3CIA[m.I] * 1000, W3CIA[m.A] * 1000)
      impact  == IF changed THEN BaseC15Tab[key] ELSE ImpactUnchanged(IssTab[key])
      expl    == Exploitability(W3AV[m.AV], W3AC[m.AC],
                                V3Weight("PR", m.PR, m.S), W3UI[m.UI])
  IN Combine(ver, changed, impact, expl)

(***************************************************************************)
(* Temporal: Roundup(BaseScore * E * RL * RC) on the ROUNDED base score.   *)
(* b in tenths, weights in thousandths (all multiples of 10), so           *)
(* b * (e/10) * (rl/10) * (rc/10) <= 10^8 is the value times 10^7.         *)
(***************************************************************************)
TemporalOf(ver, b, e, rl, rc) ==
  LET p == b * (W3E[e] \div 10) * (W3RL[rl] \div 10) * (W3RC[rc] \div 10)
  IN IF ver = "3.1"
     THEN LET n == (p + 50) \div 100       \* round(value * 10^5), half up
          IN IF n % 10000 = 0 THEN n \div 10000 ELSE (n \div 10000) + 1
     ELSE (p + 999999) \div 1000000       \* exact ceiling of value * 10

V3TemporalTenth(ver, m) == TemporalOf(ver, V3BaseTenth(ver, m), m.E, m.RL, m.RC)

(***************************************************************************)
(* Environmental                                                           *)
(***************************************************************************)
Eff(m, mod) == IF m[mod] = "X" THEN m[V3ModifiedOf[mod]] ELSE m[mod]

\* requirement-weighted impact factor in millionths
Fac(req, cia) == W3Req[req] * W3CIA[cia]

Miss(fc, fi, fa) == DMin(OneMinusProd(fc, fi, fa), DOf(915, 3))

\* direct (un-tabulated) form, used by the spot checks in MC_V3Env
ModImpactDirect(ver, changed, miss) ==
  IF ~changed THEN ImpactUnchanged(miss)
  ELSE IF ver = "3.1" THEN ImpactChanged13(miss) ELSE ImpactChanged15(miss)
ModImpactKey(ver, changed, key) ==
  IF ~changed THEN ImpactUnchanged(MissOfKey(key))
  ELSE IF ver = "3.1" THEN EnvC13Tab[key] ELSE EnvC15Tab[key]

\* the inner round-up of the environmental equation (before the temporal
\* multipliers), from effective values
V3EnvInnerTenth(ver, changed, fc, fi, fa, av, ac, pr, ui) ==
  Combine(ver, changed, ModImpactKey(ver, changed, Sort3(fc, fi, fa)),
          Exploitability(av, ac, pr, ui))
V3EnvInnerTenthDirect(ver, changed, fc, fi, fa, av, ac, pr, ui) ==
  Combine(ver, changed, ModImpactDirect(ver, changed, Miss(fc, fi, fa)),
          Exploitability(av, ac, pr, ui))

V3EnvInnerOf(ver, m) ==
  LET ms == Eff(m, "MS")
  IN V3EnvInnerTenth(ver, ms = "C",
       Fac(m.CR, Eff(m, "MC")), Fac(m.IR, Eff(m, "MI")), Fac(m.AR, Eff(m, "MA")),
       W3AV[Eff(m, "MAV")], W3AC[Eff(m, "MAC")],
       V3Weight("PR", Eff(m, "MPR"), ms), W3UI[Eff(m, "MUI")])

V3EnvTenth(ver, m) == TemporalOf(ver, V3EnvInnerOf(ver, m), m.E, m.RL, m.RC)

(***************************************************************************)
(* Domains                                                                 *)
(***************************************************************************)
V3BaseVectors == [{V3BaseNames[i] : i \in 1..8} -> {"N","A","L","P","H","R","U","C"}]
IsBaseVector(b) == \A n \in DOMAIN b : b[n] \in V3CodeSet(n)
\* complete a base assignment to a full vector with everything else "X"
WithDefaults(b) ==
  [n \in Range(V3AllNames) |-> IF n \in DOMAIN b THEN b[n] ELSE "X"]
=============================================================================
