----------------------------- MODULE Concurrent -----------------------------
(***************************************************************************)
(* Concurrent use of the library (C16): G goroutines, each running a small *)
(* program over                                                            *)
(*   - its OWN object, decoded token by token (one step per decodeOne, the *)
(*     grain at which the real code is gated in the conformance replay),   *)
(*   - a SHARED, already decoded object that is only queried,              *)
(*   - the package-level lookup tables every step reads.                   *)
(* The design is race free when no step writes shared state.  The constant *)
(* Variant selects deliberate deviations that a refactoring could          *)
(* introduce; TLC must find the violation for each of them (non-vacuity):  *)
(*   "pure"         the library as designed                                *)
(*   "LazyTable"    a lookup table filled on first use                     *)
(*   "MemoScore"    Score() memoised in a package-level cache              *)
(*   "SharedNames"  one names set shared by all objects of a constructor   *)
(*   "SharedScratch" Encode() formatting into a package-level buffer       *)
(*   "TemplateCache" export keeping the last parsed template -- or the     *)
(*                  nested definitions of all parsed templates -- in a     *)
(*                  package-level variable (check-then-use)                *)
(*   "PoolDoublePut" Encode() buffers recycled through a pool into which   *)
(*                  the error path puts its buffer twice                   *)
(*                                                                         *)
(* State: pc[g], own[g] (tokens decoded so far, as a sequence), dup[g]     *)
(* (a duplicate was reported), out[g] (results), shared pieces, and the    *)
(* access log of the current step for the data-race check: two goroutines  *)
(* are "in" overlapping steps when both have begun and not ended; a race   *)
(* is a write to a location while another goroutine is inside a step that  *)
(* reads or writes it.                                                     *)
(***************************************************************************)
EXTENDS Integers, Sequences, FiniteSets, TLC

CONSTANTS G,           \* set of goroutine ids (strings)
          Variant      \* "pure" | "LazyTable" | "MemoScore" | "SharedNames" | "SharedScratch"

Tokens == <<"AV", "AC", "PR">>          \* the tokens each goroutine decodes into its own object
\* g1 also encodes an invalid (fresh) object first: the error path of Encode
Progs == [g \in G |-> IF g = "g1" THEN <<"encodebad", "decode", "score", "encode", "export">>
                                   ELSE <<"decode", "score", "encode", "export">>]

VARIABLES pc,        \* [g -> index into Progs[g], 1..Len+1]
          phase,     \* [g -> "idle" | "in"]   (inside a step: between Begin and End)
          tok,       \* [g -> number of tokens decoded]
          names,     \* names sets: [g -> set] ("SharedNames": every g uses names["shared"])
          dup,       \* [g -> BOOLEAN] a same-metric error was reported to g
          out,       \* [g -> sequence of results]
          tableInit, \* the lazily filled table has been written ("LazyTable")
          memo,      \* package-level score cache: set of keys ("MemoScore")
          scratch,   \* package-level buffer owner ("SharedScratch"): goroutine currently formatting, or "none"
          tcache,    \* "TemplateCache": template text held by the package-level cache, or "none"
          pool,      \* "PoolDoublePut": multiset of free buffer ids, as a sequence
          buf,       \* [g -> buffer id the goroutine is formatting into, 0 = none]
          acc,       \* [g -> set of <<location, "r"|"w">>] accesses of the step g is inside
          race       \* a data race has been observed
vars == <<pc, phase, tok, names, dup, out, tableInit, memo, scratch, tcache, pool, buf, acc, race>>

Locs(g) == IF Variant = "SharedNames" THEN "names:shared" ELSE "names:" \o g

\* accesses of the step goroutine g is about to take
StepAccesses(g) ==
  LET op == Progs[g][pc[g]]
  IN CASE op = "decode" -> {<<Locs(g), "w">>, <<"table", IF Variant = "LazyTable" /\ ~tableInit THEN "w" ELSE "r">>}
       [] op = "score" -> {<<"sharedobj", "r">>, <<"table", "r">>} \cup (IF Variant = "MemoScore" THEN {<<"memo", "w">>} ELSE {})
       [] op \in {"encode", "encodebad"} ->
            {<<"sharedobj", "r">>} \cup (IF Variant = "SharedScratch" THEN {<<"scratch", "w">>} ELSE {})
              \cup (IF Variant = "PoolDoublePut" THEN {<<"buf" \o ToString(IF pool = <<>> THEN 9 ELSE pool[1]), "w">>} ELSE {})
       [] op = "export" -> {<<"sharedobj", "r">>} \cup (IF Variant = "TemplateCache" THEN {<<"tcache", "w">>} ELSE {})

Conflict(a, b) == a[1] = b[1] /\ (a[2] = "w" \/ b[2] = "w")

Init == /\ pc = [g \in G |-> 1] /\ phase = [g \in G |-> "idle"] /\ tok = [g \in G |-> 0]
        /\ names = [g \in G \cup {"shared"} |-> {}] /\ dup = [g \in G |-> FALSE]
        /\ out = [g \in G |-> <<>>] /\ tableInit = FALSE /\ memo = {} /\ scratch = "none"
        /\ tcache = "none" /\ pool = <<1>> /\ buf = [g \in G |-> 0]
        /\ acc = [g \in G |-> {}] /\ race = FALSE

Begin(g) ==
  /\ pc[g] <= Len(Progs[g]) /\ phase[g] = "idle"
  /\ LET A == StepAccesses(g)
     IN /\ acc' = [acc EXCEPT ![g] = A]
        /\ race' = (race \/ \E h \in G \ {g} : phase[h] = "in" /\ \E a \in A, b \in acc[h] : Conflict(a, b))
  /\ phase' = [phase EXCEPT ![g] = "in"]
  /\ IF Progs[g][pc[g]] \in {"encode", "encodebad"} /\ Variant = "SharedScratch" THEN scratch' = g ELSE UNCHANGED scratch
  /\ IF Progs[g][pc[g]] = "export" /\ Variant = "TemplateCache" THEN tcache' = g ELSE UNCHANGED tcache
  \* take a buffer from the pool (a fresh one, id 9, when it is empty)
  /\ IF Progs[g][pc[g]] \in {"encode", "encodebad"} /\ Variant = "PoolDoublePut"
        THEN IF pool = <<>> THEN buf' = [buf EXCEPT ![g] = 9] /\ UNCHANGED pool
                            ELSE buf' = [buf EXCEPT ![g] = pool[1]] /\ pool' = Tail(pool)
        ELSE UNCHANGED <<pool, buf>>
  /\ UNCHANGED <<pc, tok, names, dup, out, tableInit, memo>>

End(g) ==
  /\ phase[g] = "in"
  /\ LET op == Progs[g][pc[g]]
         nk == IF Variant = "SharedNames" THEN "shared" ELSE g
     IN CASE op = "decode" ->
               LET t == Tokens[tok[g] + 1]
               IN /\ dup' = [dup EXCEPT ![g] = dup[g] \/ t \in names[nk]]
                  /\ names' = [names EXCEPT ![nk] = names[nk] \cup {t}]
                  /\ tok' = [tok EXCEPT ![g] = tok[g] + 1]
                  /\ pc' = [pc EXCEPT ![g] = IF tok[g] + 1 = Len(Tokens) THEN pc[g] + 1 ELSE pc[g]]
                  /\ tableInit' = TRUE
                  /\ UNCHANGED <<out, memo, scratch, tcache, pool, buf>>
          [] op = "score" ->
               /\ out' = [out EXCEPT ![g] = Append(out[g], "score-ok")]
               /\ memo' = IF Variant = "MemoScore" THEN memo \cup {"k"} ELSE memo
               /\ pc' = [pc EXCEPT ![g] = pc[g] + 1]
               /\ UNCHANGED <<tok, names, dup, tableInit, scratch, tcache, pool, buf>>
          [] op \in {"encode", "encodebad"} ->
               \* with a shared scratch buffer, or a pool buffer another goroutine holds too, the text is garbled
               /\ out' = [out EXCEPT ![g] = Append(out[g],
                                IF (Variant = "SharedScratch" /\ scratch # g)
                                   \/ (Variant = "PoolDoublePut" /\ \E h \in G \ {g} : buf[h] = buf[g] /\ buf[g] # 0)
                                THEN "garbled" ELSE (IF op = "encode" THEN "encoding-ok" ELSE "encoding-error"))]
               /\ pc' = [pc EXCEPT ![g] = pc[g] + 1]
               \* give the buffer back; the deviation's error path gives it back twice
               /\ IF Variant = "PoolDoublePut"
                    THEN /\ pool' = (IF op = "encodebad" THEN <<buf[g], buf[g]>> ELSE <<buf[g]>>) \o pool
                         /\ buf' = [buf EXCEPT ![g] = 0]
                    ELSE UNCHANGED <<pool, buf>>
               /\ UNCHANGED <<tok, names, dup, tableInit, memo, scratch, tcache>>
          [] op = "export" ->
               \* with the template cache the export may execute the template another goroutine parsed
               /\ out' = [out EXCEPT ![g] = Append(out[g], IF Variant = "TemplateCache" /\ tcache # g THEN "foreign-template" ELSE "export-ok")]
               /\ pc' = [pc EXCEPT ![g] = pc[g] + 1]
               /\ UNCHANGED <<tok, names, dup, tableInit, memo, scratch, tcache, pool, buf>>
  /\ phase' = [phase EXCEPT ![g] = "idle"]
  /\ acc' = [acc EXCEPT ![g] = {}]
  /\ UNCHANGED race

Next == \E g \in G : Begin(g) \/ End(g)
Spec == Init /\ [][Next]_vars

Done == \A g \in G : pc[g] > Len(Progs[g])
(***************************************************************************)
(* C16                                                                     *)
(***************************************************************************)
NoDataRace == ~race
\* every result equals the sequential one: no spurious same-metric error, right outputs
SequentialResults == Done => \A g \in G : ~dup[g] /\ out[g] = (IF g = "g1" THEN <<"encoding-error">> ELSE <<>>) \o <<"score-ok", "encoding-ok", "export-ok">>
\* nobody writes the package-level state or the shared object
SharedStateConstant == memo = {} /\ scratch = "none" /\ tcache = "none"
=============================================================================
