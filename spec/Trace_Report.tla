---------------------------- MODULE Trace_Report ----------------------------
(***************************************************************************)
(* C17: every exported field of a recorded report equals ExpectedReport.   *)
(* C18: every (language, metric) row of the display-name table satisfies   *)
(*      the relational specification.                                      *)
(***************************************************************************)
EXTENDS TraceBase, Report

RepVerdict(ev) ==
  LET x == ExpectedReport(ev.lvl, ev.ver, ev.obs, ev.names)
      missing == DOMAIN x \ DOMAIN ev.rep
      wrong == {f \in DOMAIN x \cap DOMAIN ev.rep : ev.rep[f] # x[f]}
  IN IF missing # {} THEN "report:field " \o (CHOOSE f \in missing : TRUE) \o " missing in the " \o ev.lvl \o " report"
     ELSE IF wrong # {} THEN LET f == CHOOSE g \in wrong : TRUE
                             IN "report:" \o ev.lvl \o " report (" \o ev.lang \o ") field " \o f \o " shows '" \o ev.rep[f] \o "', expected '" \o x[f] \o "' for " \o ev.s
     ELSE "ok"

NamesVerdict(ev) ==
  LET C == NameCodes(ev.m)
      who == ev.m \o " (" \o ev.lang \o ")"
  IN IF ev.title = "" THEN "names:empty title of " \o who
     ELSE IF IsMetric(ev.m) /\ DOMAIN ev.vals # C THEN "harness:value table of " \o ev.m
     ELSE IF \E c \in C : ev.vals[c] = "" THEN "names:empty value name in " \o who
     ELSE IF \E c1, c2 \in C : c1 # c2 /\ ev.vals[c1] = ev.vals[c2] THEN "names:two values of " \o who \o " share a name"
     ELSE IF \E i \in 1..Len(ev.oor) : ev.oor[i] # ev.unk_ref THEN "names:out-of-range value of " \o who \o " is not named like the common Unknown"
     ELSE IF ev.unk_ref = "" \/ (ev.lang # "ja" /\ ev.unk_ref # "Unknown") THEN "names:Unknown name in " \o ev.lang \o " is '" \o ev.unk_ref \o "'"
     ELSE IF ev.lang \notin {"en", "ja"} /\ (ev.title # ev.title_en \/ ev.vals # ev.vals_en \/ ev.oor # ev.oor_en)
          THEN "names:" \o who \o " does not fall back to the English names"
     ELSE IF ev.title # ev.first_title \/ ev.vals # ev.first_vals
          THEN "names:" \o who \o " is named differently after other language tags have been used in the process"
     ELSE IF ev.m \in DOMAIN V3ModifiedOf /\ (\E c \in V3CodeSet(V3ModifiedOf[ev.m]) : ev.vals[c] # ev.base_vals[c])
          THEN "names:" \o who \o " names a value differently from " \o V3ModifiedOf[ev.m]
     ELSE "ok"

Verdict(ev) ==
  CASE ev.k = "rep" -> RepVerdict(ev)
    [] ev.k = "mnames" -> NamesVerdict(ev)
    [] OTHER -> "harness:unknown event"

Init == LoadTrace /\ TraceInit
Next == (l <= Len(Trace) /\ Step(Verdict(Trace[l]))) \/ Finish
Spec == Init /\ [][Next]_<<l, nbad>>
=============================================================================
