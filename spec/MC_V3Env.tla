------------------------------ MODULE MC_V3Env ------------------------------
(***************************************************************************)
(* The inner step of the v3 environmental equation, tabulated over its     *)
(* effective arguments: version x effective scope x the 84 multisets of    *)
(* requirement-weighted impact factors x the 48 exploitability weight      *)
(* combinations of that scope = 16,128 evaluations in exact arithmetic.    *)
(* The dump is the InnerTab that Trace_V3 and MC_V3EnvEff load.            *)
(***************************************************************************)
EXTENDS V3Score

VARIABLES ver, changed, key, av, ac, pr, ui, inner
vars == <<ver, changed, key, av, ac, pr, ui, inner>>

Init == /\ InstallV3Tables
        /\ ver = "-" /\ changed = FALSE /\ key = <<>> /\ av = 0 /\ ac = 0 /\ pr = 0 /\ ui = 0
        /\ inner = -2
Choose == /\ inner = -2
          /\ ver' \in V3Versions
          /\ changed' \in BOOLEAN
          /\ key' \in SortedTriples(EnvFacs)
          /\ av' \in Range(W3AV) /\ ac' \in Range(W3AC) /\ ui' \in Range(W3UI)
          /\ pr' \in (IF changed' THEN Range(W3PRC) ELSE Range(W3PRU))
          /\ inner' = -1
Evaluate == /\ inner = -1
            /\ inner' = V3EnvInnerTenth(ver, changed, key[1], key[2], key[3], av, ac, pr, ui)
            /\ UNCHANGED <<ver, changed, key, av, ac, pr, ui>>
Next == Choose \/ Evaluate
Spec == Init /\ [][Next]_vars

Done == inner >= 0
InGrid == inner \in -2..100
\* zero exactly when the modified impact is not positive, i.e. all three factors are 0
ZeroIffNoImpact == Done => ((inner = 0) <=> (key = <<0, 0, 0>>))
\* with unchanged scope both versions use the same polynomial: the two round-up rules agree
RoundupsAgree == (Done /\ ~changed) =>
   inner = V3EnvInnerTenth(IF ver = "3.0" THEN "3.1" ELSE "3.0", changed, key[1], key[2], key[3], av, ac, pr, ui)
\* the tabulated polynomials are the definitions: spot-check against the direct form
DirectAgrees == (Done /\ av = 850 /\ ac = 770 /\ ui = 850) =>
   inner = V3EnvInnerTenthDirect(ver, changed, key[1], key[2], key[3], av, ac, pr, ui)
\* C13 at specification level: with requirements at 1.0 and no modification the inner
\* score is the base score, except for scope-changed v3.1 vectors
AllNDEqualsBase == (Done /\ key \in SortedTriples(CiaFacs) /\ (ver = "3.0" \/ ~changed)) =>
   inner = Combine(ver, changed,
                   IF changed THEN BaseC15Tab[key] ELSE ImpactUnchanged(IssTab[key]),
                   Exploitability(av, ac, pr, ui))
\* the 0.915 cap binds somewhere (non-vacuity of the cap), checked as a constant fact
ASSUME \E t \in SortedTriples(EnvFacs) : DCmp(OneMinusProd(t[1], t[2], t[3]), DOf(915, 3)) > 0
=============================================================================
