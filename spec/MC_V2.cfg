SPECIFICATION Spec
INVARIANT BaseInGrid
INVARIANT AdjInGrid
INVARIANT NegIffBelowZero
INVARIANT SetsSmall
INVARIANT AdjEqualsBaseOnBaseKeys
CHECK_DEADLOCK FALSE
