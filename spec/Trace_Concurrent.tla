-------------------------- MODULE Trace_Concurrent --------------------------
(***************************************************************************)
(* C16: results recorded under concurrency equal the sequential results.   *)
(*  k = "sched": one TLC-generated interleaving of the decodeOne steps of  *)
(*      two goroutines, replayed through the blocking hook: each           *)
(*      goroutine's outcome (object or sentinel, fields, names, encoding,  *)
(*      score, severity) must equal the outcome of the same decode run     *)
(*      alone;                                                             *)
(*  k = "conc": one operation of the free-running stress (per-goroutine    *)
(*      sequence number, no wall clock): result = sequential reference;    *)
(*  k = "shared": shared decoded objects and the package-level tables are  *)
(*      the same after the run (Concurrent!SharedStateConstant).           *)
(* Operations are deterministic functions of unshared state, so per-event  *)
(* equality with the sequential result is the linearizability check.       *)
(***************************************************************************)
EXTENDS TraceBase

SchedStr(s) == ToString(s)
Verdict(ev) ==
  CASE ev.k = "sched" ->
         IF ev.res = ev.seq THEN "ok"
         ELSE "schedule:" \o SchedStr(ev.sched) \o " of decodeOne steps of '" \o ev.jobs[1] \o "' and '" \o ev.jobs[2]
                \o "' gives " \o (IF ev.res[1] # ev.seq[1] THEN ev.res[1] ELSE ev.res[2]) \o " instead of the sequential result"
    [] ev.k = "conc" ->
         IF ev.res = ev.ref THEN "ok"
         ELSE "concurrent:goroutine " \o ToString(ev.g) \o " operation " \o ToString(ev.seq) \o " " \o ev.op \o " returned '" \o ev.res \o "', sequentially '" \o ev.ref \o "'"
    [] ev.k = "shared" -> IF ev.same THEN "ok" ELSE "shared:a shared object or a package-level table changed during the concurrent run"
    [] OTHER -> "harness:unknown event"

Init == LoadTrace /\ TraceInit
Next == (l <= Len(Trace) /\ Step(Verdict(Trace[l]))) \/ Finish
Spec == Init /\ [][Next]_<<l, nbad>>
=============================================================================
