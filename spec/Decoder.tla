------------------------------ MODULE Decoder ------------------------------
(***************************************************************************)
(* The implementation-shaped layer of decoding: the library's decoders     *)
(* written the way the code is written -- a version gate (v3), a token     *)
(* loop calling decodeOne per token with downward delegation               *)
(* (Environmental -> Temporal -> Base), duplicate detection through the    *)
(* per-level names sets, the deferred not-supported-metric error, and the  *)
(* final completeness check (v3: GetError; v2: Encode + comparison with    *)
(* the input).                                                             *)
(*                                                                         *)
(* It is NOT the oracle: verdicts come from Vector (property layer).  TLC  *)
(* checks in MC_Lang that on every explored string this operational        *)
(* decoder REFINES the property layer (DecoderRefinesVector): it accepts   *)
(* exactly when Accepts, and the sentinel it reports names a defect in     *)
(* Defects.  The conformance harness additionally compares the sequence of *)
(* decodeOne calls observed through the build-tag hook with Steps(...).    *)
(***************************************************************************)
EXTENDS Vector

\* result of decodeOne at one level on state st = [f, names]: either "" (ok) or a sentinel
LevelOf(fam, n) ==
  IF n \in Range(GroupNames(fam, "B")) THEN "B"
  ELSE IF n \in Range(GroupNames(fam, "T")) THEN "T"
  ELSE IF n \in Range(GroupNames(fam, "E")) THEN "E"
  ELSE "-"

\* decodeOne of the decoder of level L on token t (delegation: lowest level first)
\* returns [err |-> sentinel or "", names |-> names', f |-> f']
DecodeOne(fam, L, st, t) ==
  LET p == Split(t, ":")
      wf == Len(p) = 2 /\ p[1] # "" /\ p[2] # ""
  IN IF ~wf THEN [err |-> "InvalidVector", names |-> st.names, f |-> st.f]
     ELSE LET n == p[1]
              lv == LevelOf(fam, n)
          IN IF lv = "-" \/ LevelNo(lv) > LevelNo(L) THEN [err |-> "NotSupportMetric", names |-> st.names, f |-> st.f]
             ELSE IF n \in st.names THEN [err |-> "SameMetric", names |-> st.names, f |-> st.f]
             ELSE IF p[2] \notin CodesOf(fam, n)
                  THEN [err |-> "InvalidValue", names |-> st.names, f |-> [st.f EXCEPT ![n] = "?"]]
             ELSE [err |-> "", names |-> st.names \cup {n}, f |-> [st.f EXCEPT ![n] = p[2]]]

InitState(fam, L) ==
  [names |-> {},
   f |-> [n \in NameSet(fam, L) |-> IF fam = "v3" /\ n \notin BaseNameSet(fam) THEN "X" ELSE "?"]]

\* the token loop: stops at the first error other than not-supported-metric, which is deferred
RunLoopFrom(fam, L, st0, toks) ==
  FoldLeft(LAMBDA acc, i :
             IF acc.stop THEN acc
             ELSE LET r == DecodeOne(fam, L, acc.st, toks[i])
                  IN IF r.err = "" THEN [acc EXCEPT !.st = [names |-> r.names, f |-> r.f], !.steps = acc.steps + 1]
                     ELSE IF r.err = "NotSupportMetric" THEN [acc EXCEPT !.last = r.err, !.steps = acc.steps + 1]
                     ELSE [acc EXCEPT !.stop = TRUE, !.err = r.err, !.st = [names |-> r.names, f |-> r.f], !.steps = acc.steps + 1],
           [st |-> st0, stop |-> FALSE, err |-> "", last |-> "", steps |-> 0],
           [i \in 1..Len(toks) |-> i])
RunLoop(fam, L, toks) == RunLoopFrom(fam, L, InitState(fam, L), toks)

\* completeness checks after the loop
BaseMissing(fam, st) == \E n \in BaseNameSet(fam) : st.f[n] = "?"
GroupCount(fam, st, g) == Cardinality({n \in Range(GroupNames(fam, g)) : n \in st.names})
V2Encode(L, st) ==
  LET names == SelectSeq(NamesUpTo("v2", L), LAMBDA n : n \in st.names)
  IN JoinWith([i \in 1..Len(names) |-> names[i] \o ":" \o st.f[names[i]]], "/")

\* [ok |-> BOOLEAN, err |-> sentinel, steps |-> number of decodeOne calls of the decoder's own level]
Decode(fam, L, s) ==
  LET parts == Split(s, "/")
      hp == Split(parts[1], ":")
  IN IF fam = "v3" /\ (Len(hp) # 2 \/ hp[1] # "CVSS") THEN [ok |-> FALSE, err |-> "InvalidVector", steps |-> 0]
     ELSE IF fam = "v3" /\ hp[2] \notin V3Versions THEN [ok |-> FALSE, err |-> "NotSupportVer", steps |-> 0]
     ELSE LET r == RunLoop(fam, L, TokensOf(fam, s))
          IN IF r.stop THEN [ok |-> FALSE, err |-> r.err, steps |-> r.steps]
             ELSE IF r.last # "" THEN [ok |-> FALSE, err |-> r.last, steps |-> r.steps]
             ELSE IF BaseMissing(fam, r.st) THEN [ok |-> FALSE, err |-> "NoBaseMetrics", steps |-> r.steps]
             ELSE IF fam = "v2" /\ LevelNo(L) >= 2 /\ GroupCount(fam, r.st, "T") \in 1..2
                  THEN [ok |-> FALSE, err |-> "NoTemporalMetrics", steps |-> r.steps]
             ELSE IF fam = "v2" /\ LevelNo(L) = 3 /\ GroupCount(fam, r.st, "E") \in 1..4
                  THEN [ok |-> FALSE, err |-> "NoEnvironmentalMetrics", steps |-> r.steps]
             ELSE IF fam = "v2" /\ V2Encode(L, r.st) # s THEN [ok |-> FALSE, err |-> "Misordered", steps |-> r.steps]
             ELSE [ok |-> TRUE, err |-> "", steps |-> r.steps]

(***************************************************************************)
(* Decoding into a USED receiver (outside the listed properties, which     *)
(* speak of constructor results and nil receivers; modelled as the code    *)
(* behaves so that a change of this behaviour shows as MODEL-DRIFT): the   *)
(* names sets and the field values of the earlier decode persist, so a     *)
(* metric seen before is a same-metric error, and an optional metric the   *)
(* new vector does not write keeps its old value.                          *)
(* Returns [ok, err, f, ver].                                              *)
(***************************************************************************)
DecodeFrom(fam, L, st0, ver0, s) ==
  LET parts == Split(s, "/")
      hp == Split(parts[1], ":")
  IN IF fam = "v3" /\ (Len(hp) # 2 \/ hp[1] # "CVSS") THEN [ok |-> FALSE, err |-> "InvalidVector", f |-> st0.f, ver |-> ver0]
     ELSE IF fam = "v3" /\ hp[2] \notin V3Versions THEN [ok |-> FALSE, err |-> "NotSupportVer", f |-> st0.f, ver |-> ver0]
     ELSE LET r == RunLoopFrom(fam, L, st0, TokensOf(fam, s))
              v == IF fam = "v3" THEN hp[2] ELSE ver0
              res(ok, e) == [ok |-> ok, err |-> e, f |-> r.st.f, ver |-> v]
          IN IF r.stop THEN res(FALSE, r.err)
             ELSE IF r.last # "" THEN res(FALSE, r.last)
             ELSE IF BaseMissing(fam, r.st) THEN res(FALSE, "NoBaseMetrics")
             ELSE IF fam = "v3" /\ (\E n \in DOMAIN r.st.f : r.st.f[n] = "?") THEN res(FALSE, "InvalidValue")
             ELSE IF fam = "v2" /\ LevelNo(L) >= 2 /\ GroupCount(fam, r.st, "T") \in 1..2 THEN res(FALSE, "NoTemporalMetrics")
             ELSE IF fam = "v2" /\ LevelNo(L) >= 2 /\ GroupCount(fam, r.st, "T") = 3
                       /\ (\E n \in Range(GroupNames(fam, "T")) : r.st.f[n] = "?") THEN res(FALSE, "NoTemporalMetrics")
             ELSE IF fam = "v2" /\ LevelNo(L) = 3 /\ GroupCount(fam, r.st, "E") \in 1..4 THEN res(FALSE, "NoEnvironmentalMetrics")
             ELSE IF fam = "v2" /\ LevelNo(L) = 3 /\ GroupCount(fam, r.st, "E") = 5
                       /\ (\E n \in Range(GroupNames(fam, "E")) : r.st.f[n] = "?") THEN res(FALSE, "NoEnvironmentalMetrics")
             ELSE IF fam = "v2" /\ V2Encode(L, r.st) # s THEN res(FALSE, "Misordered")
             ELSE res(TRUE, "")

\* refinement of the property layer by the implementation-shaped layer
DecoderRefinesVectorAt(fam, L, s, D) ==
  LET r == Decode(fam, L, s)
  IN /\ r.ok <=> D = {}
     /\ ~r.ok => r.err \in SentinelsOf(D)
=============================================================================
