----------------------------- MODULE MC_Tables -----------------------------
(***************************************************************************)
(* One state holding the specification tables, dumped for the harness      *)
(* (domain enumeration, C20 weights).                                      *)
(***************************************************************************)
EXTENDS CvssTables, TLC

VARIABLE tables
RecOf(names, f(_)) == [n \in Range(names) |-> f(n)]
W3(m) == IF m = "S" THEN <<>> ELSE IF m \in {"PR"} THEN [c \in V3CodeSet(m) |-> <<W3PRU[c], W3PRC[c]>>]
         ELSE IF m \in Range(V3BaseNames \o V3TempNames) \cup {"CR", "IR", "AR"}
              THEN [c \in V3CodeSet(m) |-> <<V3Weight(m, c, "U"), V3Weight(m, c, "C")>>]
              ELSE <<>>
Init == tables =
  [v3 |-> [base |-> V3BaseNames, temporal |-> V3TempNames, environmental |-> V3EnvNames,
           codes |-> V3Codes, modifiedOf |-> V3ModifiedOf,
           weights |-> RecOf(V3BaseNames \o V3TempNames \o <<"CR", "IR", "AR">>, W3)],
   v2 |-> [base |-> V2BaseNames, temporal |-> V2TempNames, environmental |-> V2EnvNames,
           codes |-> V2Codes,
           weights |-> [m \in Range(V2AllNames) |-> [c \in V2CodeSet(m) |-> V2Weight(m, c)]]],
   sentinels |-> Sentinels]
Next == UNCHANGED tables
\* sanity of the transcription
ASSUME CodesDistinct == /\ \A m \in DOMAIN V3Codes : Cardinality(V3CodeSet(m)) = Len(V3Codes[m])
                 /\ \A m \in DOMAIN V2Codes : Cardinality(V2CodeSet(m)) = Len(V2Codes[m])
ASSUME NamesCover == /\ DOMAIN V3Codes = Range(V3AllNames)
              /\ DOMAIN V2Codes = Range(V2AllNames)
              /\ DOMAIN V3ModifiedOf \subseteq Range(V3EnvNames)
\* a Modified metric has the codes of its base metric plus X
ASSUME ModifiedCodes == \A m \in DOMAIN V3ModifiedOf : V3CodeSet(m) = V3CodeSet(V3ModifiedOf[m]) \cup {"X"}
\* the severity bands partition the grid
ASSUME BandsTotal == /\ \A t \in 0..100 : V3SeverityBand(t) \in V3Severities
              /\ \A t \in 0..100 : V2SeverityBand(t) \in V2Severities
              /\ \A s \in V3Severities : \E u \in 0..100 : V3SeverityBand(u) = s
=============================================================================
