--------------------------- MODULE MC_V3Temporal ---------------------------
(***************************************************************************)
(* The whole temporal function: (version, rounded score 0..100, E, RL, RC) *)
(* -> temporal tenth, 2 * 101 * 100 = 20,200 states.  The same function    *)
(* is the outer step of the environmental equation.                        *)
(***************************************************************************)
EXTENDS V3Score

VARIABLES ver, b, e, rl, rc, t
vars == <<ver, b, e, rl, rc, t>>

Init == ver = "-" /\ b = -1 /\ e = "-" /\ rl = "-" /\ rc = "-" /\ t = -1
Choose == /\ b = -1
          /\ ver' \in V3Versions
          /\ b' \in 0..100
          /\ e' \in V3CodeSet("E") /\ rl' \in V3CodeSet("RL") /\ rc' \in V3CodeSet("RC")
          /\ t' = TemporalOf(ver', b', e', rl', rc')
Next == Choose
Spec == Init /\ [][Next]_vars

Done == b >= 0
InGrid == Done => t \in 0..100
\* C13 at specification level
TemporalLeBase == Done => t <= b
AllNDIsIdentity == (Done /\ e = "X" /\ rl = "X" /\ rc = "X") => t = b
ZeroIffZero == Done => ((t = 0) <=> (b = 0))
\* the two round-up rules agree on every temporal product
RoundupsAgree == Done => TemporalOf("3.0", b, e, rl, rc) = TemporalOf("3.1", b, e, rl, rc)
\* X weighs like the strongest value of each metric
XIsNeutral == Done => /\ TemporalOf(ver, b, "X", rl, rc) = TemporalOf(ver, b, "H", rl, rc)
                      /\ TemporalOf(ver, b, e, "X", rc) = TemporalOf(ver, b, e, "U", rc)
                      /\ TemporalOf(ver, b, e, rl, "X") = TemporalOf(ver, b, e, rl, "C")
=============================================================================
