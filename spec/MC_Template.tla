---------------------------- MODULE MC_Template ----------------------------
(***************************************************************************)
(* Enumerates the templates of at most MaxSegs segments over               *)
(* Template!Alphabet.  Each state is one template (segment list + source). *)
(* Lemmas: a template with a parse-error segment never renders; rendering  *)
(* a concatenation is the concatenation of renderings (on a model report). *)
(***************************************************************************)
EXTENDS Template, IOUtils

VARIABLES segs, src
\* VERIF_DEPTH: "2" (quick), "3" (thorough), "4c" (thorough, second run): up to 4 segments over the core of the
\* alphabet -- the segment kinds that interact with their neighbours (delimiters in literals, trim markers, comments,
\* block openers and the two unbalanced forms)
MaxSegs == IF IOEnv.VERIF_DEPTH = "4c" THEN 4 ELSE IF IOEnv.VERIF_DEPTH = "3" THEN 3 ELSE 2
Core == {a \in Alphabet :
           \/ a.k \in {"quoted", "comment", "trim", "unclosed", "strayend"}
           \/ a.k = "lit" /\ a.t # "score="
           \/ a.k = "field" /\ a.f \in {"Vector", "EValue"}
           \/ a.k \in {"if", "with", "range"} /\ a.f = "Vector"}
Init == TLCSet(61, IF IOEnv.VERIF_DEPTH = "4c" THEN Core ELSE Alphabet) /\ segs = <<>> /\ src = ""
Next == /\ Len(segs) < MaxSegs
        /\ \E a \in TLCGet(61) : segs' = Append(segs, a) /\ src' = src \o Source(a)
Spec == Init /\ [][Next]_<<segs, src>>
SourceIsConcatenation == src = SourceOf(segs)

ModelRep == [x \in {"^Vector", "^Version", "^BaseScore", "^SeverityValue", "^AVValue", "BaseReport.Vector", "BaseReport.SeverityValue"} |->
               IF x = "^SeverityValue" THEN "" ELSE "v(" \o x \o ")"]
ParseErrorsNeverRender ==
  (\E i \in 1..Len(segs) : segs[i].k \in ParseErrorKinds) => Render("T", ModelRep, segs) = ERR
Compositional ==
  Len(segs) >= 2 =>
    LET a == Render("T", ModelRep, SubSeq(segs, 1, Len(segs) - 1))
        b == Render("T", ModelRep, <<segs[Len(segs)]>>)
        r == Render("T", ModelRep, segs)
    IN IF a = ERR \/ b = ERR THEN r = ERR ELSE r = a \o b
=============================================================================
