------------------------------- MODULE Vector -------------------------------
(***************************************************************************)
(* The vector-string language of CVSS v2 and v3.0/3.1 as the properties    *)
(* state it (property layer for C07-C11, C14):                             *)
(*   Defects(fam, L, s)  the kinds of defect the string s has for a        *)
(*                       decoder of level L ("B" < "T" < "E")              *)
(*   Accepts(fam, L, s)  == Defects = {}                                   *)
(*   Fields(fam, L, s)   the metric values an accepted string denotes      *)
(*   Canonical(...)      the canonical encoding                            *)
(*   Project(fam, L, s)  the sub-vector a lower-level decoder is given     *)
(*                                                                         *)
(* Strings are TLA+ strings.  The harness escapes every byte outside       *)
(* printable ASCII (and '\' and '"') as \xNN; the escape contains neither  *)
(* '/' nor ':', so splitting the escaped text yields the escaped parts of  *)
(* splitting the raw text, and equality with names/codes is preserved.     *)
(***************************************************************************)
EXTENDS Integers, Sequences, SequencesExt, FiniteSets, CvssTables, TLC

Levels == <<"B", "T", "E">>
LevelNo(L) == CASE L = "B" -> 1 [] L = "T" -> 2 [] L = "E" -> 3

(***************************************************************************)
(* strings.Split                                                           *)
(***************************************************************************)
\* one left-to-right pass (FoldLeft is evaluated by a Java loop): a[1] = parts so far,
\* a[2] = start of the current part
Split(s, c) ==
  LET n  == Len(s)
      st == FoldLeft(LAMBDA a, i : IF SubSeq(s, i, i) = c
                                   THEN <<Append(a[1], SubSeq(s, a[2], i - 1)), i + 1>>
                                   ELSE a,
                     <<<<>>, 1>>, [i \in 1..n |-> i])
  IN Append(st[1], SubSeq(s, st[2], n))
JoinWith(parts, c) ==
  FoldLeft(LAMBDA acc, i : IF i = 1 THEN parts[1] ELSE acc \o c \o parts[i], "", [i \in 1..Len(parts) |-> i])

(***************************************************************************)
(* metric names and codes per family and level                             *)
(***************************************************************************)
NamesUpTo(fam, L) ==
  IF fam = "v3"
  THEN CASE L = "B" -> V3BaseNames [] L = "T" -> V3BaseNames \o V3TempNames [] L = "E" -> V3AllNames
  ELSE CASE L = "B" -> V2BaseNames [] L = "T" -> V2BaseNames \o V2TempNames [] L = "E" -> V2AllNames
NameSet(fam, L) == Range(NamesUpTo(fam, L))
BaseNameSet(fam) == NameSet(fam, "B")
CodesOf(fam, name) == IF fam = "v3" THEN V3CodeSet(name) ELSE V2CodeSet(name)
GroupNames(fam, g) ==
  IF fam = "v3" THEN (CASE g = "B" -> V3BaseNames [] g = "T" -> V3TempNames [] g = "E" -> V3EnvNames)
  ELSE (CASE g = "B" -> V2BaseNames [] g = "T" -> V2TempNames [] g = "E" -> V2EnvNames)

(***************************************************************************)
(* tokens                                                                  *)
(***************************************************************************)
\* a token is well-formed iff splitting it on ':' gives exactly two non-empty parts
TokParts(t) == Split(t, ":")
WellFormedTok(t) == LET p == TokParts(t) IN Len(p) = 2 /\ p[1] # "" /\ p[2] # ""
TokName(t) == TokParts(t)[1]
TokValue(t) == TokParts(t)[2]

\* the token list of a string: everything after the prefix (v3) / everything (v2)
Parts(s) == Split(s, "/")
TokensOf(fam, s) == IF fam = "v3" THEN Tail(Parts(s)) ELSE Parts(s)

IsDigits(x) == x # "" /\ \A i \in 1..Len(x) : SubSeq(x, i, i) \in {"0", "1", "2", "3", "4", "5", "6", "7", "8", "9"}
VersionShaped(x) == LET p == Split(x, ".") IN Len(p) = 2 /\ IsDigits(p[1]) /\ IsDigits(p[2])

(***************************************************************************)
(* Defects (DESIGN.md Appendix A)                                          *)
(***************************************************************************)
PrefixDefects(s) ==
  LET hp == Split(Parts(s)[1], ":")
      shapeOk == Len(hp) = 2 /\ hp[1] = "CVSS"
  IN (IF ~shapeOk \/ (hp[2] \notin V3Versions /\ ~VersionShaped(hp[2])) THEN {"MalformedPrefix"} ELSE {})
     \cup (IF shapeOk /\ hp[2] \notin V3Versions THEN {"OtherVersion"} ELSE {})

\* tokens parsed once: <<name, value>> for a well-formed token, <<>> otherwise
ParsedTokens(toks) ==
  TLCEval([i \in 1..Len(toks) |->
             LET p == Split(toks[i], ":")
             IN IF Len(p) = 2 /\ p[1] # "" /\ p[2] # "" THEN p ELSE <<>>])

TokenDefects(fam, L, P) ==
  LET M   == NameSet(fam, L)
      wf  == {i \in 1..Len(P) : P[i] # <<>>}
      own == {i \in wf : P[i][1] \in M}
      valid == {i \in own : P[i][2] \in CodesOf(fam, P[i][1])}
      has(n) == \E i \in valid : P[i][1] = n
      cnt(g) == Cardinality({n \in Range(GroupNames(fam, g)) : has(n)})
  IN (IF wf # 1..Len(P) THEN {"MalformedToken"} ELSE {})
     \cup (IF \E i \in wf : P[i][1] \notin M THEN {"UnsupportedMetric"} ELSE {})
     \cup (IF \E i, j \in own : i < j /\ P[i][1] = P[j][1] THEN {"SameMetric"} ELSE {})
     \cup (IF own # valid THEN {"InvalidValue"} ELSE {})
     \cup (IF \E n \in BaseNameSet(fam) : ~has(n) THEN {"MissingBase"} ELSE {})
     \cup (IF fam = "v2" /\ LevelNo(L) >= 2 /\ cnt("T") \in 1..2 THEN {"IncompleteTemporal"} ELSE {})
     \cup (IF fam = "v2" /\ LevelNo(L) = 3 /\ cnt("E") \in 1..4 THEN {"IncompleteEnv"} ELSE {})
     \cup (IF fam = "v2" /\
              LET order == NamesUpTo(fam, L)
                  pos(n) == CHOOSE k \in 1..Len(order) : order[k] = n
                  first == {i \in own : \A j \in own : P[j][1] = P[i][1] => i <= j}
              IN \E i, j \in first : i < j /\ pos(P[i][1]) > pos(P[j][1])
           THEN {"Misordered"} ELSE {})

\* the defect sets for all three decoder levels from one tokenisation
Defects3(fam, s) ==
  LET P  == ParsedTokens(TokensOf(fam, s))
      pd == IF fam = "v3" THEN PrefixDefects(s) ELSE {}
  IN [L \in {"B", "T", "E"} |-> pd \cup TokenDefects(fam, L, P)]
Defects(fam, L, s) == Defects3(fam, s)[L]

Accepts(fam, L, s) == Defects(fam, L, s) = {}

\* the sentinel each kind of defect is reported with (C11)
SentinelOf(d) ==
  CASE d = "MalformedPrefix" -> "InvalidVector"
    [] d = "OtherVersion" -> "NotSupportVer"
    [] d = "MalformedToken" -> "InvalidVector"
    [] d = "UnsupportedMetric" -> "NotSupportMetric"
    [] d = "SameMetric" -> "SameMetric"
    [] d = "InvalidValue" -> "InvalidValue"
    [] d = "MissingBase" -> "NoBaseMetrics"
    [] d = "IncompleteTemporal" -> "NoTemporalMetrics"
    [] d = "IncompleteEnv" -> "NoEnvironmentalMetrics"
    [] d = "Misordered" -> "Misordered"
SentinelsOf(D) == {SentinelOf(d) : d \in D}

(***************************************************************************)
(* Meaning of an accepted string                                           *)
(***************************************************************************)
VersionOf(s) == Split(Parts(s)[1], ":")[2]

\* written values: name -> value of the (first) well-formed token with that name, "-" when not written
WrittenAll(fam, s) ==
  LET P == ParsedTokens(TokensOf(fam, s))
  IN TLCEval([n \in NameSet(fam, "E") |->
                LET I == {i \in 1..Len(P) : P[i] # <<>> /\ P[i][1] = n}
                IN IF I = {} THEN "-" ELSE P[CHOOSE i \in I : \A j \in I : i <= j][2]])
Written(fam, s, n) == WrittenAll(fam, s)[n]

\* v3: every metric of the level has a value (unwritten optional ones are "X")
\* v2: a metric of an absent group is "-" (the group is reported empty)
Fields(fam, L, s) ==
  LET W == WrittenAll(fam, s)
  IN TLCEval([n \in NameSet(fam, L) |-> IF W[n] = "-" /\ fam = "v3" THEN "X" ELSE W[n]])

GroupPresent(fam, s, g) == LET W == WrittenAll(fam, s) IN \E n \in Range(GroupNames(fam, g)) : W[n] # "-"

\* canonical encoding of field values f (function name -> code or "-") at level L
CanonicalOf(fam, ver, L, f) ==
  LET names == SelectSeq(NamesUpTo(fam, L), LAMBDA n : f[n] # "-")
      toks == [i \in 1..Len(names) |-> names[i] \o ":" \o f[names[i]]]
  IN IF fam = "v3" THEN JoinWith(<<"CVSS:" \o ver>> \o toks, "/") ELSE JoinWith(toks, "/")
Canonical(fam, L, s) == CanonicalOf(fam, IF fam = "v3" THEN VersionOf(s) ELSE "", L, Fields(fam, L, s))

\* the vector's metrics of the levels up to L2 alone, in the order written (C14)
Project(fam, L2, s) ==
  LET toks == TokensOf(fam, s)
      keep == SelectSeq(toks, LAMBDA t : WellFormedTok(t) /\ TokName(t) \in NameSet(fam, L2))
  IN IF fam = "v3" THEN JoinWith(<<Parts(s)[1]>> \o keep, "/") ELSE JoinWith(keep, "/")
=============================================================================
