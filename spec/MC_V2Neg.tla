------------------------------ MODULE MC_V2Neg ------------------------------
(***************************************************************************)
(* For every v2 (C, CR, I, IR, A, AR, AV, AC, Au) combination of value     *)
(* codes: is the specification's adjusted base equation negative?  Uses    *)
(* the exact table of MC_V2; the dump lists the combinations (C06's        *)
(* exception, C05's latitude).                                             *)
(***************************************************************************)
EXTENDS V2Score, Json, IOUtils

VARIABLE row
Tabs == TLCGet(43)
KeyOf(c, cr, i, ir, a, ar, av, ac, au) ==
  LET k == Sort3v2(Fac2(cr, c), Fac2(ir, i), Fac2(ar, a))
  IN ToString(k[1]) \o "," \o ToString(k[2]) \o "," \o ToString(k[3]) \o "|"
       \o ToString(W2AV[av]) \o "," \o ToString(W2AC[ac]) \o "," \o ToString(W2Au[au])
Init == TLCSet(43, JsonDeserialize(IOEnv.VERIF_GEN \o "/v2tabs.json")) /\ row = "init"
Choose == /\ row = "init"
          /\ \E c \in V2CodeSet("C"), cr \in V2CodeSet("CR"), i \in V2CodeSet("I"), ir \in V2CodeSet("IR") :
               row' = "p|" \o c \o "|" \o cr \o "|" \o i \o "|" \o ir
Expand == /\ SubSeq(row, 1, 2) = "p|"
          /\ \E c \in V2CodeSet("C"), cr \in V2CodeSet("CR"), i \in V2CodeSet("I"), ir \in V2CodeSet("IR") :
               /\ row = "p|" \o c \o "|" \o cr \o "|" \o i \o "|" \o ir
               /\ \E a \in V2CodeSet("A"), ar \in V2CodeSet("AR"), av \in V2CodeSet("AV"), ac \in V2CodeSet("AC"), au \in V2CodeSet("Au") :
                    row' = (IF Tabs.adj[KeyOf(c, cr, i, ir, a, ar, av, ac, au)].neg THEN "neg|" ELSE "pos|")
                           \o av \o "/" \o ac \o "/" \o au \o "/" \o c \o "/" \o i \o "/" \o a \o "/" \o cr \o "/" \o ir \o "/" \o ar
Next == Choose \/ Expand
=============================================================================
