---------------------------- MODULE Trace_Tables ----------------------------
(***************************************************************************)
(* C20: the library's value codes, enumeration values and numeric weights, *)
(* probed through Get<Metric>, String, Value and the validity predicates,  *)
(* validated against CvssTables.  "?" is the unknown/invalid value of a    *)
(* metric type, "#n" an enumeration integer that is no declared constant.  *)
(***************************************************************************)
EXTENDS TraceBase, CvssTables


Codes(fam, m) == IF fam = "v3" THEN V3Codes[m] ELSE V2Codes[m]
CodeSet(fam, m) == Range(Codes(fam, m))
Names(fam) == IF fam = "v3" THEN V3AllNames ELSE V2AllNames

\* expected weight (thousandths) of a defined value, in the context the harness recorded
V3BaseWeight(bm, c, scope) == V3Weight(bm, c, scope)
ExpectedWeight(ev) ==
  IF ev.fam = "v2" THEN V2Weight(ev.m, ev.c)
  ELSE IF ev.m = "PR" THEN V3Weight("PR", ev.c, ev.scope)
  ELSE IF ev.m = "MPR"
       THEN LET es == IF ev.ms = "X" THEN ev.s ELSE ev.ms
                cc == IF ev.c = "X" THEN ev.base ELSE ev.c
            IN V3Weight("PR", cc, es)
  ELSE IF ev.m \in DOMAIN V3ModifiedOf
       THEN V3Weight(V3ModifiedOf[ev.m], IF ev.c = "X" THEN ev.base ELSE ev.c, "U")
  ELSE V3Weight(ev.m, ev.c, "U")

Verdict(ev) ==
  CASE ev.k = "defs" ->
         IF ev.idx + 1 \in DOMAIN Names(ev.fam) /\ Names(ev.fam)[ev.idx + 1] = ev.m /\ Codes(ev.fam, ev.m) = ev.codes
         THEN "ok" ELSE "harness:code table of " \o ev.m \o " differs from CvssTables"
    [] ev.k = "parse" ->
         LET want == IF ev.s \in CodeSet(ev.fam, ev.m) THEN ev.s ELSE "?"
         IN IF ev.got = want THEN "ok"
            ELSE "parse:" \o ev.fam \o " " \o ev.m \o " parses '" \o ev.s \o "' to " \o ev.got \o ", expected " \o want
    [] ev.k = "print" ->
         IF ev.c \in CodeSet(ev.fam, ev.m) THEN (IF ev.str = ev.c THEN "ok" ELSE "print:" \o ev.fam \o " " \o ev.m \o " value " \o ev.c \o " prints '" \o ev.str \o "'")
         ELSE IF ev.c = "?" THEN (IF ev.str = "" THEN "ok" ELSE "print:" \o ev.fam \o " " \o ev.m \o " unknown value prints '" \o ev.str \o "'")
         ELSE "ok"      \* integers that are no declared constant: unspecified
    [] ev.k = "pred" ->
         IF /\ {d[1] : d \in Range(ev.defined)} = CodeSet(ev.fam, ev.m)
            /\ \A d \in Range(ev.defined) : d[2] # ev.unknown
         THEN "ok" ELSE "pred:" \o ev.fam \o " " \o ev.m \o " " \o ev.pname \o " does not separate the unknown value from every defined value"
    [] ev.k = "weight" ->
         IF ev.ex /\ ev.w = ExpectedWeight(ev) THEN "ok"
         ELSE "weight:" \o ev.fam \o " " \o ev.m \o ":" \o ev.c \o " weighs " \o ToString(ev.w) \o "/1000, expected " \o ToString(ExpectedWeight(ev))
    [] ev.k = "ver" ->
         LET want == IF ev.s \in V3Versions THEN ev.s ELSE "?"
         IN IF ev.got = want THEN "ok" ELSE "version:" \o ev.pkg \o " parses '" \o ev.s \o "' to " \o ev.got
    [] ev.k = "verprint" ->
         IF ev.c \in V3Versions /\ ev.str # ev.c THEN "version:" \o ev.pkg \o " prints " \o ev.c \o " as '" \o ev.str \o "'"
         ELSE IF ev.c = "?" /\ ev.str \in V3Versions THEN "version:" \o ev.pkg \o " prints unknown as " \o ev.str
         ELSE "ok"
    \* beyond C20 (MODEL-DRIFT diagnostics): IsDefined of the v2 optional metrics, Severity.String
    [] ev.k = "isdefined" ->
         IF ev.val = (ev.c # "?" /\ ev.c # "ND") THEN "ok"      \* as coded: also true for integers that are no constant
         ELSE "drift:" \o ev.fam \o " " \o ev.m \o " IsDefined(" \o ev.c \o ")"
    [] ev.k = "sevstr" ->
         LET names == IF ev.fam = "v3" THEN <<"None", "Low", "Medium", "High", "Critical">> ELSE <<"Low", "Medium", "High">>
             want == IF ev.c \in 1..Len(names) THEN names[ev.c] ELSE "Unknown"
         IN IF ev.str = want THEN "ok" ELSE "drift:" \o ev.fam \o " Severity(" \o ToString(ev.c) \o ").String() = '" \o ev.str \o "'"
    [] OTHER -> "harness:unknown event"

Init == LoadTrace /\ TraceInit
Next == (l <= Len(Trace) /\ Step(Verdict(Trace[l]))) \/ Finish
Spec == Init /\ [][Next]_<<l, nbad>>
=============================================================================
