SPECIFICATION Spec
INVARIANT ParseErrorsNeverRender
INVARIANT Compositional
INVARIANT SourceIsConcatenation
CHECK_DEADLOCK FALSE
