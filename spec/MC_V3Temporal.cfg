SPECIFICATION Spec
INVARIANT InGrid
INVARIANT TemporalLeBase
INVARIANT AllNDIsIdentity
INVARIANT ZeroIffZero
INVARIANT RoundupsAgree
INVARIANT XIsNeutral
CHECK_DEADLOCK FALSE
