--------------------------- MODULE Trace_Objects ---------------------------
(***************************************************************************)
(* Validates recorded operation histories against the Objects machine.     *)
(* The trace carries, after every step, the snapshot of every live         *)
(* variable (exported fields via the harness constant tables, the          *)
(* unexported names maps via reflection) and a digest of the package-level *)
(* tables.  This spec keeps the previous snapshot as its model state and   *)
(* checks each step as a transition of Objects:                            *)
(*   new / nil   the snapshot is Fresh / NilObj                            *)
(*   decode      object xor error; accept iff Accepts; accepted => the     *)
(*               object's fields are Decoded(...)                          *)
(*   set         exactly that field changed                                *)
(*   query       C15: all snapshots and the tables digest are UNCHANGED;   *)
(*               repeated calls agree; the result equals that of a freshly *)
(*               decoded twin; C12: no panic; on an Invalid receiver the   *)
(*               validity/encoding queries report an error and Score is 0  *)
(* Verdict kinds: panic, fabricated, accept, invalid-result (C12);         *)
(* mutated, tables, nondeterministic, history (C15); drift (diagnostic:    *)
(* the implementation-shaped expectations new/set/decoded-state).          *)
(***************************************************************************)
EXTENDS TraceBase, Objects, Decoder

VARIABLES prev, ptab, cur      \* previous snapshots, previous tables digest, current history id

\* snapshot record -> abstract object
ObjOf(sn) ==
  IF sn.nil THEN NilObj(sn.fam, sn.lvl)
  ELSE LET names == NamesUpTo(sn.fam, sn.lvl)
           codes == Split(sn.f, ",")
       IN [nil |-> FALSE, fam |-> sn.fam, lvl |-> sn.lvl, ver |-> sn.ver,
           f |-> [n \in Range(names) |-> codes[CHOOSE i \in 1..Len(names) : names[i] = n]],
           \* "~": the implementation keeps its bookkeeping in a shape the harness cannot read; then a metric counts
           \* as recorded when its exported field holds a value
           names |-> IF sn.names = "" THEN {}
                     ELSE IF sn.names = "~" THEN {names[i] : i \in {j \in 1..Len(names) : codes[j] # UnknownCode}}
                     ELSE Range(Split(sn.names, ","))]
NamesReadable(sn) == sn.nil \/ sn.names # "~"
SnapOk(sn) == sn.nil \/ Len(Split(sn.f, ",")) = Len(NamesUpTo(sn.fam, sn.lvl))

QueryVerdict(ev) ==
  LET op == ev.op
      sn == ev.snaps[op.x]
      o  == ViewOf(ObjOf(sn), op.via)
      r1 == ev.res[1]
  IN IF ev.panic # "" \/ (\E i \in 1..Len(ev.res) : Has(ev.res[i], "panic"))
        THEN "panic:" \o op.q \o " via " \o op.via \o " panicked on a " \o sn.fam \o sn.lvl \o " object"
     ELSE IF ev.snaps # prev THEN "mutated:" \o op.q \o " via " \o op.via \o " changed a " \o sn.fam \o sn.lvl \o " object"
     ELSE IF ev.tables # ptab THEN "tables:" \o op.q \o " changed the package-level tables"
     ELSE IF ev.res = <<>> THEN "harness:no result"
     ELSE IF \E i \in 1..Len(ev.res) : ev.res[i] # r1 THEN "nondeterministic:" \o op.q \o " returned different results when repeated"
     ELSE IF Invalid(o) /\ ~InvalidResultOk(op.q, r1)
          THEN "invalid-result:" \o op.q \o " via " \o op.via \o " on an invalid " \o sn.fam \o sn.lvl \o " object (fields " \o sn.f \o ", version " \o sn.ver \o ") reports "
                 \o (IF op.q = "Score" THEN "score " \o TenthStr(r1.sc) ELSE "no error")
     ELSE IF Has(ev, "twin") /\ ~Invalid(o) /\ ev.twin # r1
          THEN "history:" \o op.q \o " via " \o op.via \o " differs from the same query on a freshly decoded twin (fields " \o sn.f \o ")"
     \* diagnostics last, so that they never mask a violation
     ELSE IF ~NamesReadable(sn) THEN "ok"
     ELSE IF op.q \in {"Encode", "String"} /\ SnapOk(sn) /\ r1.str # EncodeText(o)
          THEN "drift:" \o op.q \o " via " \o op.via \o " returns '" \o r1.str \o "', the implementation-shaped model says '" \o EncodeText(o) \o "'"
     ELSE IF op.q \in {"GetError", "Encode"} /\ SnapOk(sn) /\ (\A n \in DOMAIN o.f : o.f[n] = UnknownCode \/ o.f[n] \in CodesOf(o.fam, n))
             /\ r1.sent # (IF ErrorKind(o, op.q) = "" THEN <<>> ELSE <<ErrorKind(o, op.q)>>)
          THEN "drift:" \o op.q \o " via " \o op.via \o " reports " \o ToString(r1.sent) \o ", the implementation-shaped model says '" \o ErrorKind(o, op.q) \o "'"
     ELSE "ok"

DecodeVerdict(ev) ==
  LET r == prev["r"]
      x == ev.snaps["x"]
      acc == Accepts(r.fam, r.lvl, ev.op.s)
  IN IF ev.panic # "" THEN "panic:Decode panicked on '" \o ev.op.s \o "'"
     ELSE IF x.nil = ev.ok THEN "fabricated:Decode of '" \o ev.op.s \o "' returned " \o (IF ev.ok THEN "neither object nor error" ELSE "both an object and an error")
     ELSE IF ev.ok # acc THEN "accept:" \o r.fam \o r.lvl \o " decoder " \o (IF ev.ok THEN "accepted" ELSE "rejected") \o " '" \o ev.op.s \o "'"
     ELSE IF ev.ok /\ SnapOk(x) /\ Invalid(ObjOf(x))
          THEN "fabricated:Decode of '" \o ev.op.s \o "' returned no error and an object that is not usable (fields " \o x.f \o ", version " \o x.ver \o ")"
     ELSE IF ev.ok /\ SnapOk(x) /\ (ObjOf(x).f # Decoded(r.fam, r.lvl, ev.op.s).f \/ ObjOf(x).ver # Decoded(r.fam, r.lvl, ev.op.s).ver)
          THEN "drift:decoded state of '" \o ev.op.s \o "'"
     ELSE "ok"

\* second Decode into a used receiver: object xor error (C12); everything else is compared with the
\* operational model only (MODEL-DRIFT)
Decode2Verdict(ev) ==
  LET r == prev["r"]
      y == ev.snaps["y"]
  IN IF ev.panic # "" THEN "panic:Decode into a used receiver panicked on '" \o ev.op.s \o "'"
     ELSE IF y.nil = ev.ok THEN "fabricated:Decode of '" \o ev.op.s \o "' into a used receiver returned " \o (IF ev.ok THEN "neither object nor error" ELSE "both an object and an error")
     \* "a usable object and no error": whatever the receiver went through, an object returned without an error is valid
     ELSE IF ev.ok /\ SnapOk(y) /\ Invalid(ObjOf(y))
          THEN "fabricated:Decode of '" \o ev.op.s \o "' into a used receiver returned no error and an object that is not usable (fields " \o y.f \o ", version " \o y.ver \o ")"
     ELSE IF r.nil \/ ~SnapOk(r) \/ ~NamesReadable(r) THEN "ok"
     ELSE LET o == ObjOf(r)
              m == DecodeFrom(r.fam, r.lvl, [names |-> o.names, f |-> o.f], o.ver, ev.op.s)
          IN IF m.ok # ev.ok THEN "drift:reused receiver: the operational model " \o (IF m.ok THEN "accepts" ELSE "rejects") \o " '" \o ev.op.s \o "'"
             ELSE IF ~ev.ok /\ ev.sent # <<m.err>> THEN "drift:reused receiver: error kind for '" \o ev.op.s \o "'"
             ELSE IF ev.ok /\ SnapOk(y) /\ (ObjOf(y).f # m.f \/ ObjOf(y).ver # m.ver) THEN "drift:reused receiver: decoded state of '" \o ev.op.s \o "'"
             ELSE "ok"

StepVerdict(ev) ==
  CASE ev.op.op = "query" -> QueryVerdict(ev)
    [] ev.op.op = "decode2" -> Decode2Verdict(ev)
    [] ev.op.op = "decode" -> DecodeVerdict(ev)
    [] ev.op.op = "new" -> (IF ev.panic # "" THEN "panic:constructor"
                            ELSE IF NamesReadable(ev.snaps["r"]) /\ ObjOf(ev.snaps["r"]) # Fresh(ev.snaps["r"].fam, ev.snaps["r"].lvl) THEN "drift:constructor state" ELSE "ok")
    [] ev.op.op = "nil" -> (IF ev.snaps["r"].nil THEN "ok" ELSE "harness:nil receiver")
    [] ev.op.op \in {"set", "setgroup"} -> (IF ev.panic # "" THEN "harness:set panicked" ELSE "ok")
    [] OTHER -> "harness:unknown op"

\* which verdict kinds count for the property being checked
Relevant(v) ==
  LET kind == Split(v, ":")[1]
  IN IF kind \in {"harness", "drift"} THEN TRUE      \* drift: MODEL-DRIFT diagnostics, reported but never a violation
     ELSE IF Pid = "C12" THEN kind \in {"panic", "fabricated", "accept", "invalid-result"}
     ELSE IF Pid = "C15" THEN kind \in {"mutated", "tables", "nondeterministic", "history"}
     ELSE TRUE

\* one vector processed at three different points of three different processing orders
OrderVerdict(ev) ==
  IF ev.a = ev.b /\ ev.b = ev.c THEN "ok"
  ELSE "history:decoding '" \o ev.s \o "' with the " \o ev.fam \o ev.lvl \o " decoder gives different results depending on what was processed before"

\* one history run again with queries injected before every state-changing operation (also on the receiver
\* before its first Decode): Query leaves the state UNCHANGED in Objects, so decode outcomes, final snapshots and
\* the results of the closing battery are those of the run without the injected queries
InjectVerdict(ev) ==
  IF ev.same THEN "ok"
  ELSE "history:queries asked between the operations of a history change a later result: without them '" \o ev.a \o "', with them '" \o ev.b \o "'"

\* the same queries repeated on one object and on a second, freshly decoded one: the harness reports a vector only
\* when it saw more than one distinct answer (and, once, how many vectors it probed)
RepeatVerdict(ev) ==
  IF ev.same THEN "ok"
  ELSE "nondeterministic:repeated queries on '" \o ev.s \o "' gave " \o ToString(Len(ev.vals)) \o " different answers: "
         \o ev.vals[1] \o " | " \o ev.vals[2]

Init == LoadTrace /\ TraceInit /\ prev = <<>> /\ ptab = "" /\ cur = -1
StepO == /\ l <= Len(Trace)
         /\ LET ev == Trace[l]
                v0 == IF ev.k = "order" THEN OrderVerdict(ev)
                      ELSE IF ev.k = "inject" THEN InjectVerdict(ev)
                      ELSE IF ev.k = "repeat" THEN RepeatVerdict(ev)
                      ELSE IF ev.k # "step" THEN "harness:unknown event"
                      ELSE IF ev.i > 0 /\ ev.h # cur THEN "harness:history interleaved"
                      ELSE StepVerdict(ev)
                v == IF v0 = "ok" \/ Relevant(v0) THEN v0 ELSE "ok"
            IN /\ Step(v)
               /\ IF ev.k = "step" THEN prev' = ev.snaps /\ ptab' = ev.tables /\ cur' = ev.h
                                   ELSE UNCHANGED <<prev, ptab, cur>>
Next == StepO \/ (Finish /\ UNCHANGED <<prev, ptab, cur>>)
Spec == Init /\ [][Next]_<<l, nbad, prev, ptab, cur>>
=============================================================================
