SPECIFICATION Spec
INVARIANT SeedsAccepted
INVARIANT Monotone
INVARIANT SentinelsTotal
INVARIANT CanonicalFixedPoint
INVARIANT V2AcceptsIffCanonical
INVARIANT ProjectionAccepted
CHECK_DEADLOCK FALSE
