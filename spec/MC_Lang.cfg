SPECIFICATION Spec
INVARIANT SeedsAccepted
INVARIANT Monotone
INVARIANT SentinelsTotal
INVARIANT CanonicalFixedPoint
INVARIANT V2AcceptsIffCanonical
INVARIANT ProjectionAccepted
INVARIANT DecoderRefinesVector
CHECK_DEADLOCK FALSE
