---------------------------- MODULE MC_V3EnvEff ----------------------------
(***************************************************************************)
(* The inner environmental score over EFFECTIVE value codes (what remains  *)
(* after every Modified metric that is X has been replaced by its base     *)
(* metric): version x effective scope x (CR,C) x (IR,I) x (AR,A) x AV x AC *)
(* x PR x UI = 331,776 rows, looked up in the InnerTab produced by         *)
(* MC_V3Env.  The harness scans the concrete 10^10 product against it.     *)
(***************************************************************************)
EXTENDS V3Score, Json, IOUtils

VARIABLE row      \* "ver|S|CR C IR I AR A AV AC PR UI|tenth" as one string, or phase marker
InnerTab == TLCGet(41)
InnerKey(v, ch, k, av, ac, pr, ui) ==
  v \o "|" \o (IF ch THEN "C" ELSE "U") \o "|" \o ToString(k[1]) \o "," \o ToString(k[2]) \o ","
    \o ToString(k[3]) \o "|" \o ToString(av) \o "|" \o ToString(ac) \o "|" \o ToString(pr) \o "|" \o ToString(ui)

Init == /\ TLCSet(41, JsonDeserialize(IOEnv.VERIF_GEN \o "/v3envinner.json"))
        /\ row = "init"
Req == V3CodeSet("CR")
Cia == V3CodeSet("C")
\* first fan out over (ver, scope, CR, C) cheaply, then let the workers expand the rest
Choose == /\ row = "init"
          /\ \E v \in V3Versions, s \in V3CodeSet("S"), cr \in Req, c \in Cia :
               row' = "p|" \o v \o "|" \o s \o "|" \o cr \o c
Expand == /\ SubSeq(row, 1, 2) = "p|"
          /\ LET v == SubSeq(row, 3, 5)
                 s == SubSeq(row, 7, 7)
                 cr == SubSeq(row, 9, 9)
                 c == SubSeq(row, 10, 10)
             IN \E ir \in Req, i \in Cia, ar \in Req, a \in Cia,
                   av \in V3CodeSet("AV"), ac \in V3CodeSet("AC"), pr \in V3CodeSet("PR"), ui \in V3CodeSet("UI") :
                  row' = v \o "|" \o s \o "|" \o cr \o c \o ir \o i \o ar \o a \o av \o ac \o pr \o ui \o "|"
                         \o ToString(InnerTab[InnerKey(v, s = "C",
                                Sort3(Fac(cr, c), Fac(ir, i), Fac(ar, a)),
                                W3AV[av], W3AC[ac], V3Weight("PR", pr, s), W3UI[ui])])
Next == Choose \/ Expand
=============================================================================
