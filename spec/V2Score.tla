------------------------------ MODULE V2Score ------------------------------
(***************************************************************************)
(* The CVSS v2 base, temporal and environmental equations of the FIRST     *)
(* "Complete Guide to CVSS v2", in exact arithmetic (property layer for    *)
(* C04, C05, C13).  Scores are integers in tenths.                         *)
(*                                                                         *)
(* "round_to_1_decimal" is nearest-tenth; a value lying exactly halfway    *)
(* between two tenths may round to either neighbour (the properties say    *)
(* so), hence every equation returns the SET of admissible tenths and sets *)
(* are propagated through every later step.                                *)
(***************************************************************************)
EXTENDS BigDec, CvssTables, TLC

D1v2  == DInt(1)
D10v2 == DInt(10)

\* nearest integers to p / d for integers p (any sign), d > 0
NearestDiv(p, d) ==
  LET q == p \div d        \* floor
      r == p % d           \* 0 <= r < d
  IN IF 2 * r < d THEN {q} ELSE IF 2 * r > d THEN {q + 1} ELSE {q, q + 1}

\* 10.41 * (1 - (1-a)(1-b)(1-c)), a b c in millionths (weight x requirement)
ImpactOf(a, b, c) ==
  DMul(DOf(1041, 2),
       DSub(D1v2, DMul(DMul(DSub(D1v2, DOf(a, 6)), DSub(D1v2, DOf(b, 6))), DSub(D1v2, DOf(c, 6)))))
AdjustedImpactOf(a, b, c) == DMin(D10v2, ImpactOf(a, b, c))

\* 20 * AV * AC * Au, weights in thousandths
ExploitabilityOf(av, ac, au) == DMul(DInt(20), DMul(DMul(DOf(av, 3), DOf(ac, 3)), DOf(au, 3)))

\* ((0.6 * Impact) + (0.4 * Exploitability) - 1.5) * f(Impact), unrounded
BaseRaw(impact, expl) ==
  IF DIsZero(impact) THEN DInt(0)
  ELSE DMul(DSub(DAdd(DMul(DOf(6, 1), impact), DMul(DOf(4, 1), expl)), DOf(15, 1)), DOf(1176, 3))

Round1(x) == NearestScaled(x, 1)          \* set of tenths

\* FIRST equations
V2BaseSetOf(a, b, c, av, ac, au) == Round1(BaseRaw(ImpactOf(a, b, c), ExploitabilityOf(av, ac, au)))
V2AdjBaseSetOf(a, b, c, av, ac, au) == Round1(BaseRaw(AdjustedImpactOf(a, b, c), ExploitabilityOf(av, ac, au)))
V2NegativeEq(a, b, c, av, ac, au) == DIsNeg(BaseRaw(AdjustedImpactOf(a, b, c), ExploitabilityOf(av, ac, au)))

(***************************************************************************)
(* Named deviation Round2 (known finding KF-1): the library rounds the     *)
(* Impact, Exploitability and AdjustedImpact sub-scores to two decimals    *)
(* before using them.  Modelled with the same half-way latitude.           *)
(***************************************************************************)
Round2Sub(x) == {DOf(n, 2) : n \in NearestScaled(x, 2)}
V2BaseSetRound2(a, b, c, av, ac, au, adjusted) ==
  LET imp == IF adjusted THEN ImpactOf(a, b, c) ELSE ImpactOf(a, b, c)
      I2  == IF adjusted THEN {DMin(D10v2, i) : i \in Round2Sub(imp)} ELSE Round2Sub(imp)
      E2  == Round2Sub(ExploitabilityOf(av, ac, au))
  IN UNION {Round1(BaseRaw(i, e)) : i \in I2, e \in E2}

(***************************************************************************)
(* Outer steps on a rounded score b (tenths, may be negative for the       *)
(* environmental level): integer arithmetic.                               *)
(***************************************************************************)
\* round1(b * E * RL * RC); weights in thousandths are multiples of 10
V2TemporalOf(b, e, rl, rc) ==
  NearestDiv(b * (W2E[e] \div 10) * (W2RL[rl] \div 10) * (W2RC[rc] \div 10), 1000000)
\* round1((at + (10 - at) * CDP) * TD); at in tenths; CDP in tenths, TD in hundredths
V2EnvFinalOf(at, cdp, td) ==
  NearestDiv((at * 10 + (100 - at) * (W2CDP[cdp] \div 100)) * (W2TD[td] \div 10), 1000)

\* t and e are sequences of codes (<<>> = group absent)
V2TemporalSet(baseSet, t) ==
  IF t = <<>> THEN baseSet ELSE UNION {V2TemporalOf(b, t[1], t[2], t[3]) : b \in baseSet}
V2EnvOuterSet(adjBaseSet, t, e) ==
  LET ats == V2TemporalSet(adjBaseSet, t)
  IN UNION {V2EnvFinalOf(at, e[1], e[2]) : at \in ats}

\* factor keys: weight x requirement in millionths
Fac2(req, cia) == W2Req[req] * W2CIA[cia]
Sort3v2(a, b, c) == LET lo == Min2(a, Min2(b, c))
                        hi == Max2(a, Max2(b, c))
                    IN <<lo, a + b + c - lo - hi, hi>>
BaseFacs2 == {w * 1000 : w \in Range(W2CIA)}
EnvFacs2  == {r * w : r \in Range(W2Req), w \in Range(W2CIA)}
SortedTriples2(S) == {t \in S \X S \X S : t[1] <= t[2] /\ t[2] <= t[3]}
ExplKeys2 == Range(W2AV) \X Range(W2AC) \X Range(W2Au)
=============================================================================
