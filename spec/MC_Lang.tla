------------------------------ MODULE MC_Lang ------------------------------
(***************************************************************************)
(* Generator model for the vector-string language: the state is a string,  *)
(* a transition is one edit (character level: delete / substitute / insert *)
(* over a small alphabet; token level: drop / duplicate / swap / replace / *)
(* insert over a token alphabet).  TLC explores the edit neighbourhoods of *)
(* a set of seed vectors breadth-first up to MaxDepth; every reached       *)
(* string is replayed into the three real decoders of the family and the   *)
(* recorded outcome is validated against Vector!Accepts / Defects by       *)
(* Trace_Lang.  The invariants are lemmas about the property layer itself. *)
(*                                                                         *)
(* Environment: VERIF_FAM = v3 | v2, VERIF_MODE = char | token,            *)
(* VERIF_DEPTH = 1 | 2, VERIF_SEEDS = all | base.                          *)
(***************************************************************************)
EXTENDS Decoder, TLC, IOUtils

VARIABLES s, d, ph, def
vars == <<s, d, ph, def>>

Fam == IOEnv.VERIF_FAM
Mode == IOEnv.VERIF_MODE
MaxDepth == IF IOEnv.VERIF_DEPTH = "2" THEN 2 ELSE 1

V3Seeds ==
  <<"CVSS:3.1/AV:N/AC:L/PR:N/UI:R/S:C/C:H/I:L/A:N",
    "CVSS:3.0/A:H/I:H/C:L/S:U/UI:N/PR:L/AC:H/AV:P",
    "CVSS:3.1/AV:A/AC:H/PR:H/UI:N/S:U/C:N/I:N/A:L/E:F/RL:X/RC:R",
    "CVSS:3.0/AV:L/AC:L/PR:L/UI:R/S:C/C:L/I:H/A:H/RC:C",
    "CVSS:3.1/AV:N/AC:L/PR:N/UI:N/S:U/C:H/I:H/A:H/E:X/RL:O/RC:X/CR:H/IR:X/AR:L/MAV:A/MAC:X/MPR:L/MUI:X/MS:C/MC:X/MI:N/MA:H",
    "CVSS:3.0/AV:P/AC:H/PR:H/UI:R/S:C/C:L/I:L/A:L/MS:U/CR:M/E:U",
    "CVSS:3.1/MA:L/AV:N/AC:L/E:P/PR:N/UI:N/S:U/C:H/IR:H/I:H/A:H">>
V2Seeds ==
  <<"AV:N/AC:L/Au:N/C:P/I:P/A:C",
    "AV:L/AC:H/Au:M/C:N/I:N/A:P/E:POC/RL:OF/RC:UC",
    "AV:A/AC:M/Au:S/C:C/I:C/A:C/CDP:LM/TD:M/CR:H/IR:ND/AR:L",
    "AV:N/AC:L/Au:N/C:C/I:C/A:C/E:F/RL:W/RC:C/CDP:H/TD:H/CR:M/IR:M/AR:H">>
Seeds == LET all == IF Fam = "v3" THEN V3Seeds ELSE V2Seeds
         IN IF IOEnv.VERIF_SEEDS = "base" THEN <<all[1]>> ELSE all

V3Alpha == {"/", ":", ".", "0", "1", "3", "A", "C", "E", "M", "N", "S", "V", "X", "a", "n", " ", "\\x00", "\\xff"}
V2Alpha == {"/", ":", "A", "C", "D", "E", "F", "N", "O", "P", "u", "n", " ", "\\x00", "\\xc3\\xa9"}
Alpha == IF Fam = "v3" THEN V3Alpha ELSE V2Alpha

CharEdits(x) ==
  LET n == Len(x)
  IN {SubSeq(x, 1, i - 1) \o SubSeq(x, i + 1, n) : i \in 1..n}
     \cup {SubSeq(x, 1, i - 1) \o c \o SubSeq(x, i + 1, n) : i \in 1..n, c \in Alpha}
     \cup {SubSeq(x, 1, i) \o c \o SubSeq(x, i + 1, n) : i \in 0..n, c \in Alpha}

\* token alphabet: for every metric of every level a valid value, the not-defined code, an invalid
\* value, a lower-case value and a lower-case name; plus malformed shapes and foreign names
AllNames == NamesUpTo(Fam, "E")
Lower(c) == CASE c = "N" -> "n" [] c = "L" -> "l" [] c = "H" -> "h" [] c = "X" -> "x" [] c = "U" -> "u"
              [] c = "P" -> "p" [] c = "C" -> "c" [] c = "ND" -> "nd" [] c = "M" -> "m" [] OTHER -> "q"
TokAlphaDef ==
  UNION {{n \o ":" \o c : c \in CodesOf(Fam, n)} \cup {n \o ":Z", n \o ":" \o Lower(CHOOSE c \in CodesOf(Fam, n) : TRUE),
          n \o ":X", n \o ":ND", n \o ":", n, n \o "::N", n \o ":N:N", " " \o n \o ":N", n \o ":N "} : n \in Range(AllNames)}
  \cup {"", ":", ":N", "av:N", "Av:N", "XX:N", "AV :N", "AV: N", "CVSS:3.1", "CVSS:3.0", "E:H", "MAV:N", "Au:N", "RL:OF"}

TokAlpha == TLCGet(60)     \* installed by Init (TLC re-evaluates constant definitions reached through parameters)

TokEdits(x) ==
  LET p == Split(x, "/")
      first == IF Fam = "v3" THEN 2 ELSE 1        \* v3: position 1 is the prefix
      n == Len(p)
      J(q) == JoinWith(q, "/")
      without(i) == SubSeq(p, 1, i - 1) \o SubSeq(p, i + 1, n)
      insertAt(q, i, t) == SubSeq(q, 1, i) \o <<t>> \o SubSeq(q, i + 1, Len(q))
  IN {J(without(i)) : i \in first..n}
     \cup {J(insertAt(p, j, p[i])) : i \in first..n, j \in (first - 1)..n}
     \cup {J([k \in 1..n |-> IF k = i THEN p[j] ELSE IF k = j THEN p[i] ELSE p[k]]) : i \in first..n, j \in first..n}
     \cup {J([k \in 1..n |-> IF k = i THEN t ELSE p[k]]) : i \in first..n, t \in TokAlpha}
     \cup {J(insertAt(p, i, t)) : i \in (first - 1)..n, t \in TokAlpha}
     \cup (IF Fam = "v3"
           THEN {J([k \in 1..n |-> IF k = 1 THEN h ELSE p[k]]) :
                   h \in {"CVSS:3.0", "CVSS:3.1", "CVSS:2.0", "CVSS:3.2", "CVSS:4.0", "CVSS:3", "CVSS:3.", "CVSS:3.10", "CVSS:", "CVSS",
                          "cvss:3.1", "CVSS:3.1:", "CVSS3.1", "CVSS:v3.1", " CVSS:3.1", "CVSS:3.1 ", "CVSS:1.0", "3.1", "", "CVSS:31", "CVSS:3.x"}}
                \cup {J(Tail(p))}
           ELSE {"CVSS:2.0/" \o x, x \o "/", "/" \o x, "(" \o x \o ")", x \o " "})

Edits(x) == IF Mode = "char" THEN CharEdits(x) ELSE TokEdits(x)

\* Two phases per string so that all workers share the evaluation of the property layer
\* (TLC generates the successors of one state on one worker): "raw" = just produced by
\* an edit, "ok" = its defect sets per decoder level have been evaluated.
Init == TLCSet(60, TokAlphaDef) /\ s \in Range(Seeds) /\ d = 0 /\ ph = "raw" /\ def = <<>>
Judge == /\ ph = "raw"
         /\ ph' = "ok"
         /\ def' = Defects3(Fam, s)
         /\ UNCHANGED <<s, d>>
Edit == /\ ph = "ok" /\ d < MaxDepth
        /\ s' \in Edits(s)
        /\ d' = d + 1 /\ ph' = "raw" /\ def' = <<>>
Next == Judge \/ Edit
Spec == Init /\ [][Next]_vars

Acc(L) == def[L] = {}
(***************************************************************************)
(* Lemmas about the property layer, checked on every explored string       *)
(***************************************************************************)
\* every seed is accepted by the environmental decoder
SeedsAccepted == (ph = "ok" /\ d = 0) => Acc("E")
\* acceptance is monotone in the level
Monotone == ph = "ok" => ((Acc("B") => Acc("T")) /\ (Acc("T") => Acc("E")))
\* every defect kind has a sentinel among the library's exported ones
SentinelsTotal == ph = "ok" => \A L \in {"B", "T", "E"} : SentinelsOf(def[L]) \subseteq Sentinels
\* the canonical encoding of an accepted string is accepted, is a fixed point and keeps the fields
CanonicalFixedPoint ==
  ph = "ok" => \A L \in {"B", "T", "E"} :
    Acc(L) =>
      LET c == Canonical(Fam, L, s)
      IN Accepts(Fam, L, c) /\ Canonical(Fam, L, c) = c /\ Fields(Fam, L, c) = Fields(Fam, L, s)
\* v2: an accepted string is byte-identical to its canonical encoding (Appendix A's lemma)
V2AcceptsIffCanonical ==
  (ph = "ok" /\ Fam = "v2") => \A L \in {"B", "T", "E"} : Acc(L) => Canonical(Fam, L, s) = s
\* the implementation-shaped decoder (token loop, names sets, deferred error, completeness
\* checks) refines the property layer on every explored string
DecoderRefinesVector ==
  ph = "ok" => \A L \in {"B", "T", "E"} : DecoderRefinesVectorAt(Fam, L, s, def[L])
\* the projection of an accepted string is accepted one level down
ProjectionAccepted ==
  ph = "ok" => /\ Acc("E") => Accepts(Fam, "T", Project(Fam, "T", s))
               /\ Acc("T") => Accepts(Fam, "B", Project(Fam, "B", s))
=============================================================================
