--------------------------- MODULE Trace_Template ---------------------------
(***************************************************************************)
(* C19: every recorded export is validated                                 *)
(*  - against Template!Render when the template is in the modelled         *)
(*    grammar (segs given): same text, or invalid-template and no reader;  *)
(*  - against Go's text/template executed directly on the same report      *)
(*    (recorded as the environment function refOk / refOut) for every      *)
(*    template, also outside the grammar;                                  *)
(*  - nil reader, failing reader: invalid template, no reader; nil report: *)
(*    null pointer, no reader; never a panic, never partial output;        *)
(*  - reader export = string export (both are compared with the same       *)
(*    expected text).                                                      *)
(***************************************************************************)
EXTENDS TraceBase, Template

SegOf(j) == IF "f" \in DOMAIN j THEN [k |-> j.k, f |-> j.f] ELSE IF "t" \in DOMAIN j THEN [k |-> j.k, t |-> j.t] ELSE [k |-> j.k]

ErrorOk(ev, sentinel) == ~ev.ok /\ ~ev.gotReader /\ ev.out = "" /\ ev.sent = <<sentinel>>

Verdict(ev) ==
  IF ev.k # "tmpl" THEN "harness:unknown event"
  ELSE IF ev.panic # "" THEN "panic:export panicked on template '" \o ev.text \o "'"
  ELSE IF ev.nilReport /\ ~ev.nilReader
       THEN (IF ErrorOk(ev, "NullPointer") THEN "ok" ELSE "nil-report:export from a nil " \o ev.lvl \o " report does not fail cleanly with the null-pointer sentinel")
  ELSE IF ev.nilReader
       THEN (IF ErrorOk(ev, "InvalidTemplate") THEN "ok" ELSE "nil-reader:export from a nil reader does not fail cleanly with the invalid-template sentinel")
  ELSE IF ev.failAt >= 0
       THEN (IF ErrorOk(ev, "InvalidTemplate") THEN "ok"
             ELSE "failing-reader:reader failing after " \o ToString(ev.failAt) \o " chunks: export does not fail cleanly (template '" \o ev.text \o "')")
  ELSE LET segs == [i \in 1..Len(ev.segs) |-> SegOf(ev.segs[i])]
           inGrammar == Len(ev.segs) > 0
           want == IF inGrammar THEN Render(ev.lvl, ev.rep, segs) ELSE (IF ev.refOk THEN ev.refOut ELSE ERR)
       IN IF inGrammar /\ SourceOf(segs) # ev.text THEN "harness:template text differs from Template!Source"
          ELSE IF inGrammar /\ (want = ERR) # ~ev.refOk THEN "harness:Template!Render and text/template disagree on validity of '" \o ev.text \o "'"
          ELSE IF inGrammar /\ want # ERR /\ want # ev.refOut THEN "harness:Template!Render and text/template disagree on the output of '" \o ev.text \o "'"
          ELSE IF want = ERR
               THEN (IF ErrorOk(ev, "InvalidTemplate") THEN "ok"
                     ELSE "invalid-template:'" \o ev.text \o "' (" \o ev.mode \o ") does not fail cleanly: ok=" \o ToString(ev.ok) \o " output '" \o ev.out \o "'")
          ELSE IF ~ev.ok \/ ~ev.gotReader THEN "render:valid template '" \o ev.text \o "' (" \o ev.mode \o ", chunk " \o ToString(ev.chunk) \o ") is rejected"
          ELSE IF ev.out # want THEN "render:'" \o ev.text \o "' (" \o ev.mode \o ", chunk " \o ToString(ev.chunk) \o ") renders '" \o ev.out \o "', expected '" \o want \o "'"
          ELSE "ok"

Init == LoadTrace /\ TraceInit
Next == (l <= Len(Trace) /\ Step(Verdict(Trace[l]))) \/ Finish
Spec == Init /\ [][Next]_<<l, nbad>>
=============================================================================
