SPECIFICATION Spec
INVARIANT NilAndFreshInvalid
INVARIANT DecodedIsValid
INVARIANT RejectedMeansNoObject
INVARIANT ResetInvalidates
INVARIANT ViewsMonotone
CHECK_DEADLOCK FALSE
