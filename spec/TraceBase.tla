----------------------------- MODULE TraceBase -----------------------------
(***************************************************************************)
(* Skeleton shared by the monitor-style trace specifications.              *)
(*                                                                         *)
(* The harness records what the real library did as NDJSON (one event per  *)
(* line); a trace spec loads the file named by the environment variable    *)
(* VERIF_TRACE once (into TLC register 50, see V3Score on why registers),  *)
(* consumes exactly one event per step and NEVER blocks: an event that     *)
(* contradicts the property layer is reported with its position as         *)
(*     "VERDICT|<position>|<kind and detail>"                              *)
(* on TLC's output and the orchestrator turns it into a VIOLATION (or      *)
(* matches it against the known findings).  Acceptance = all events        *)
(* consumed: the run must end with Len(Trace) + 2 distinct states and the  *)
(* number of parsed verdict lines must equal the printed BADCOUNT.         *)
(***************************************************************************)
EXTENDS Integers, Sequences, TLC, Json, IOUtils

LoadTrace == TLCSet(50, ndJsonDeserialize(IOEnv.VERIF_TRACE))
Trace == TLCGet(50)
Pid == IOEnv.VERIF_PID

Has(ev, f) == f \in DOMAIN ev

\* l = position of the next event, nbad = number of verdicts reported so far
VARIABLES l, nbad

\* One line per verdict, as a single string (TLC wraps long tuples over several lines).
Report(pos, kind) == PrintT("VERDICT|" \o ToString(pos) \o "|" \o kind)

TraceInit == l = 1 /\ nbad = 0
\* consume one event whose verdict is v
Step(v) == /\ IF v = "ok" THEN TRUE ELSE Report(l, v)
           /\ l' = l + 1
           /\ nbad' = nbad + (IF v = "ok" THEN 0 ELSE 1)
\* after the last event: publish the number of verdicts so that the orchestrator can
\* verify it parsed every one of them
Finish == /\ l = Len(Trace) + 1
          /\ PrintT("BADCOUNT|" \o ToString(nbad))
          /\ l' = l + 1
          /\ UNCHANGED nbad

\* decimal rendering of a score given in tenths: 98 -> "9.8", 100 -> "10", 0 -> "0", -3 -> "-0.3"
TenthStr(t) ==
  LET a == IF t < 0 THEN 0 - t ELSE t
  IN (IF t < 0 THEN "-" ELSE "") \o ToString(a \div 10)
       \o (IF a % 10 = 0 THEN "" ELSE "." \o ToString(a % 10))
Char(s, i) == SubSeq(s, i, i)
\* Renderings of a tenth with at most one decimal digit.  IEEE negative zero is the
\* number 0 and prints as "-0": it satisfies C06 as worded (a multiple of 0.1 between
\* 0.0 and 10.0, no decimal digit), so it is admitted (the v2 equations produce it when
\* the impact factor f is 0 and the bracket is negative).
Prints(t) == {TenthStr(t)} \cup (IF t = 0 THEN {"-0"} ELSE {})
=============================================================================
