----------------------------- MODULE TraceBase -----------------------------
(***************************************************************************)
(* Skeleton shared by the monitor-style trace specifications.              *)
(*                                                                         *)
(* The harness records what the real library did as NDJSON (one event per  *)
(* line); a trace spec loads the file named by the environment variable    *)
(* VERIF_TRACE once (into TLC register 50, see V3Score on why registers),  *)
(* consumes exactly one event per step and NEVER blocks: an event that     *)
(* contradicts the property layer is reported with its position as         *)
(*     <<"VERDICT", position, kind, detail>>                               *)
(* on TLC's output and the orchestrator turns it into a VIOLATION (or      *)
(* matches it against the known findings).  Acceptance = all events        *)
(* consumed: the run must end with Len(Trace) + 1 distinct states.         *)
(***************************************************************************)
EXTENDS Integers, Sequences, TLC, Json, IOUtils

LoadTrace == TLCSet(50, ndJsonDeserialize(IOEnv.VERIF_TRACE))
Trace == TLCGet(50)
Pid == IOEnv.VERIF_PID

Has(ev, f) == f \in DOMAIN ev
Report(pos, kind, detail) == PrintT(<<"VERDICT", pos, kind, detail>>)

\* decimal rendering of a score given in tenths: 98 -> "9.8", 100 -> "10", 0 -> "0", -3 -> "-0.3"
TenthStr(t) ==
  LET a == IF t < 0 THEN 0 - t ELSE t
  IN (IF t < 0 THEN "-" ELSE "") \o ToString(a \div 10)
       \o (IF a % 10 = 0 THEN "" ELSE "." \o ToString(a % 10))
Char(s, i) == SubSeq(s, i, i)
=============================================================================
