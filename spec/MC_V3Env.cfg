SPECIFICATION Spec
INVARIANT InGrid
INVARIANT ZeroIffNoImpact
INVARIANT RoundupsAgree
INVARIANT DirectAgrees
INVARIANT AllNDEqualsBase
CHECK_DEADLOCK FALSE
