SPECIFICATION Spec
CONSTANT K = 4
INVARIANT Bounded
CHECK_DEADLOCK FALSE
