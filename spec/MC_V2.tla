------------------------------- MODULE MC_V2 -------------------------------
(***************************************************************************)
(* Tabulates the v2 base equation (270 keys: 10 impact multisets x 27      *)
(* exploitabilities) and the adjusted base equation (84 x 27 = 2,268 keys) *)
(* in exact arithmetic, each with the admissible set under the FIRST       *)
(* equations, under the named Round2 deviation, and the sign of the        *)
(* equation; plus the outer integer steps on their whole domains.          *)
(***************************************************************************)
EXTENDS V2Score

VARIABLES kind, key, ex, spec, r2, neg
vars == <<kind, key, ex, spec, r2, neg>>

Init == kind = "init" /\ key = <<>> /\ ex = <<>> /\ spec = {} /\ r2 = {} /\ neg = FALSE
Choose == /\ kind = "init"
          /\ \/ kind' = "pbase" /\ key' \in SortedTriples2(BaseFacs2)
             \/ kind' = "padj" /\ key' \in SortedTriples2(EnvFacs2)
          /\ ex' \in ExplKeys2
          /\ UNCHANGED <<spec, r2, neg>>
Evaluate ==
  \/ /\ kind = "pbase" /\ kind' = "base"
     /\ spec' = V2BaseSetOf(key[1], key[2], key[3], ex[1], ex[2], ex[3])
     /\ r2' = V2BaseSetRound2(key[1], key[2], key[3], ex[1], ex[2], ex[3], FALSE)
     /\ neg' = FALSE
     /\ UNCHANGED <<key, ex>>
  \/ /\ kind = "padj" /\ kind' = "adj"
     /\ spec' = V2AdjBaseSetOf(key[1], key[2], key[3], ex[1], ex[2], ex[3])
     /\ r2' = V2BaseSetRound2(key[1], key[2], key[3], ex[1], ex[2], ex[3], TRUE)
     /\ neg' = V2NegativeEq(key[1], key[2], key[3], ex[1], ex[2], ex[3])
     /\ UNCHANGED <<key, ex>>
Next == Choose \/ Evaluate
Spec == Init /\ [][Next]_vars

Done == kind \in {"base", "adj"}
\* the base equation is never negative and stays on the grid; zero iff no impact
BaseInGrid == kind = "base" => (spec \subseteq 0..100 /\ ((0 \in spec) <=> key = <<0, 0, 0>>))
AdjInGrid == kind = "adj" => spec \subseteq (-20)..100
NegIffBelowZero == kind = "adj" => (neg => \E s \in spec : s <= 0)
SetsSmall == Done => (Cardinality(spec) \in 1..2 /\ Cardinality(r2) \in 1..4)
\* with requirements at 1.0 the adjusted equation is the base equation (C13-style sanity)
AdjEqualsBaseOnBaseKeys == (kind = "adj" /\ key \in SortedTriples2(BaseFacs2)
                            /\ DCmp(ImpactOf(key[1], key[2], key[3]), D10v2) <= 0) =>
   spec = V2BaseSetOf(key[1], key[2], key[3], ex[1], ex[2], ex[3])
=============================================================================
