---------------------------- MODULE CvssTables ----------------------------
(***************************************************************************)
(* The tables of the FIRST CVSS v2, v3.0 and v3.1 specification documents, *)
(* transcribed from the documents (not from the Go code).  Weights are     *)
(* integers in thousandths.  "?" is the code of the unknown/invalid value  *)
(* of any metric (it is not a value code of the specification).            *)
(***************************************************************************)
EXTENDS Integers, Sequences, FiniteSets, Functions


(***************************************************************************)
(* CVSS v3.0 / v3.1                                                        *)
(***************************************************************************)
V3Versions == {"3.0", "3.1"}

V3BaseNames == <<"AV", "AC", "PR", "UI", "S", "C", "I", "A">>
V3TempNames == <<"E", "RL", "RC">>
V3EnvNames  == <<"CR", "IR", "AR", "MAV", "MAC", "MPR", "MUI", "MS", "MC", "MI", "MA">>
V3AllNames  == V3BaseNames \o V3TempNames \o V3EnvNames

\* value codes per metric, in the order the specification lists them
V3Codes ==
  [AV  |-> <<"N", "A", "L", "P">>,
   AC  |-> <<"L", "H">>,
   PR  |-> <<"N", "L", "H">>,
   UI  |-> <<"N", "R">>,
   S   |-> <<"U", "C">>,
   C   |-> <<"H", "L", "N">>,
   I   |-> <<"H", "L", "N">>,
   A   |-> <<"H", "L", "N">>,
   E   |-> <<"X", "H", "F", "P", "U">>,
   RL  |-> <<"X", "U", "W", "T", "O">>,
   RC  |-> <<"X", "C", "R", "U">>,
   CR  |-> <<"X", "H", "M", "L">>,
   IR  |-> <<"X", "H", "M", "L">>,
   AR  |-> <<"X", "H", "M", "L">>,
   MAV |-> <<"X", "N", "A", "L", "P">>,
   MAC |-> <<"X", "L", "H">>,
   MPR |-> <<"X", "N", "L", "H">>,
   MUI |-> <<"X", "N", "R">>,
   MS  |-> <<"X", "U", "C">>,
   MC  |-> <<"X", "H", "L", "N">>,
   MI  |-> <<"X", "H", "L", "N">>,
   MA  |-> <<"X", "H", "L", "N">>]

V3CodeSet(m) == Range(V3Codes[m])

\* the base metric a Modified metric falls back to when it is Not Defined
V3ModifiedOf ==
  [MAV |-> "AV", MAC |-> "AC", MPR |-> "PR", MUI |-> "UI",
   MS |-> "S", MC |-> "C", MI |-> "I", MA |-> "A"]

\* weights in thousandths
W3AV == [N |-> 850, A |-> 620, L |-> 550, P |-> 200]
W3AC == [L |-> 770, H |-> 440]
W3PRU == [N |-> 850, L |-> 620, H |-> 270]      \* scope unchanged
W3PRC == [N |-> 850, L |-> 680, H |-> 500]      \* scope changed
W3UI == [N |-> 850, R |-> 620]
W3CIA == [H |-> 560, L |-> 220, N |-> 0]
W3E  == [X |-> 1000, H |-> 1000, F |-> 970, P |-> 940, U |-> 910]
W3RL == [X |-> 1000, U |-> 1000, W |-> 970, T |-> 960, O |-> 950]
W3RC == [X |-> 1000, C |-> 1000, R |-> 960, U |-> 920]
W3Req == [X |-> 1000, H |-> 1500, M |-> 1000, L |-> 500]

\* qualitative severity rating scale (score in tenths)
V3SeverityBand(t) ==
  IF t = 0 THEN "None"
  ELSE IF t <= 39 THEN "Low"
  ELSE IF t <= 69 THEN "Medium"
  ELSE IF t <= 89 THEN "High"
  ELSE "Critical"
V3Severities == {"None", "Low", "Medium", "High", "Critical"}

(***************************************************************************)
(* CVSS v2                                                                 *)
(***************************************************************************)
V2BaseNames == <<"AV", "AC", "Au", "C", "I", "A">>
V2TempNames == <<"E", "RL", "RC">>
V2EnvNames  == <<"CDP", "TD", "CR", "IR", "AR">>
V2AllNames  == V2BaseNames \o V2TempNames \o V2EnvNames

V2Codes ==
  [AV  |-> <<"L", "A", "N">>,
   AC  |-> <<"H", "M", "L">>,
   Au  |-> <<"M", "S", "N">>,
   C   |-> <<"N", "P", "C">>,
   I   |-> <<"N", "P", "C">>,
   A   |-> <<"N", "P", "C">>,
   E   |-> <<"U", "POC", "F", "H", "ND">>,
   RL  |-> <<"OF", "TF", "W", "U", "ND">>,
   RC  |-> <<"UC", "UR", "C", "ND">>,
   CDP |-> <<"N", "L", "LM", "MH", "H", "ND">>,
   TD  |-> <<"N", "L", "M", "H", "ND">>,
   CR  |-> <<"L", "M", "H", "ND">>,
   IR  |-> <<"L", "M", "H", "ND">>,
   AR  |-> <<"L", "M", "H", "ND">>]

V2CodeSet(m) == Range(V2Codes[m])

W2AV == [L |-> 395, A |-> 646, N |-> 1000]
W2AC == [H |-> 350, M |-> 610, L |-> 710]
W2Au == [M |-> 450, S |-> 560, N |-> 704]
W2CIA == [N |-> 0, P |-> 275, C |-> 660]
W2E  == [U |-> 850, POC |-> 900, F |-> 950, H |-> 1000, ND |-> 1000]
W2RL == [OF |-> 870, TF |-> 900, W |-> 950, U |-> 1000, ND |-> 1000]
W2RC == [UC |-> 900, UR |-> 950, C |-> 1000, ND |-> 1000]
W2CDP == [N |-> 0, L |-> 100, LM |-> 300, MH |-> 400, H |-> 500, ND |-> 0]
W2TD == [N |-> 0, L |-> 250, M |-> 750, H |-> 1000, ND |-> 1000]
W2Req == [L |-> 500, M |-> 1000, H |-> 1510, ND |-> 1000]

V2SeverityBand(t) ==
  IF t <= 39 THEN "Low" ELSE IF t <= 69 THEN "Medium" ELSE "High"
V2Severities == {"Low", "Medium", "High"}

(***************************************************************************)
(* Weight of a code of a metric, as one total function (used by C20 and by *)
(* the trace specs); v3 PR/MPR take the (effective) scope code.            *)
(***************************************************************************)
V3Weight(m, c, scope) ==
  CASE m = "AV" -> W3AV[c] [] m = "AC" -> W3AC[c] [] m = "UI" -> W3UI[c]
    [] m = "PR" -> (IF scope = "C" THEN W3PRC[c] ELSE W3PRU[c])
    [] m \in {"C", "I", "A"} -> W3CIA[c]
    [] m = "E" -> W3E[c] [] m = "RL" -> W3RL[c] [] m = "RC" -> W3RC[c]
    [] m \in {"CR", "IR", "AR"} -> W3Req[c]
V2Weight(m, c) ==
  CASE m = "AV" -> W2AV[c] [] m = "AC" -> W2AC[c] [] m = "Au" -> W2Au[c]
    [] m \in {"C", "I", "A"} -> W2CIA[c]
    [] m = "E" -> W2E[c] [] m = "RL" -> W2RL[c] [] m = "RC" -> W2RC[c]
    [] m = "CDP" -> W2CDP[c] [] m = "TD" -> W2TD[c]
    [] m \in {"CR", "IR", "AR"} -> W2Req[c]

(***************************************************************************)
(* The library's eleven exported sentinel errors (names only; the spec     *)
(* never looks at message texts).                                          *)
(***************************************************************************)
Sentinels == {"NullPointer", "InvalidVector", "NotSupportVer", "NotSupportMetric",
              "InvalidTemplate", "SameMetric", "InvalidValue", "NoBaseMetrics",
              "NoTemporalMetrics", "NoEnvironmentalMetrics", "Misordered"}
=============================================================================
