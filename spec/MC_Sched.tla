------------------------------ MODULE MC_Sched ------------------------------
(***************************************************************************)
(* All interleavings of the gated steps of two concurrent decodes: each    *)
(* goroutine passes K gate points (entries of its decoder's decodeOne);    *)
(* the dump's complete states are the C(2K, K) schedules the harness       *)
(* replays deterministically through the blocking hook.                    *)
(***************************************************************************)
EXTENDS Integers, Sequences
CONSTANT K
VARIABLES cnt, sched
Init == cnt = [g \in {1, 2} |-> 0] /\ sched = <<>>
Next == \E g \in {1, 2} : cnt[g] < K /\ cnt' = [cnt EXCEPT ![g] = cnt[g] + 1] /\ sched' = Append(sched, g)
Spec == Init /\ [][Next]_<<cnt, sched>>
\* every prefix is balanced within K: sanity
Bounded == Len(sched) <= 2 * K
=============================================================================
