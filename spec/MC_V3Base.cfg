SPECIFICATION Spec
INVARIANT InGrid
INVARIANT ZeroIffNoImpact
INVARIANT RoundupsAgree
INVARIANT AnchorsMatch
CHECK_DEADLOCK FALSE
