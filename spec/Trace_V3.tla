------------------------------ MODULE Trace_V3 ------------------------------
(***************************************************************************)
(* Validates recorded v3 score observations against the property layer     *)
(* (V3Score): C01 base, C02 temporal, C03 environmental, C06 grid/severity *)
(* and the C13 relations.                                                  *)
(*                                                                         *)
(* Event (k = "v3"):                                                       *)
(*   ver "3.0"|"3.1"; b, t, e: value codes of the 8 base / 3 temporal /    *)
(*   11 environmental metrics in specification order (one character each); *)
(*   lvl "B"|"T"|"E": the level whose Score()/Severity() was read;         *)
(*   obs: round(score*10); ex: score == obs/10 exactly; str: the score     *)
(*   printed with strconv 'f',-1; sev: Severity().String();                *)
(*   d: TRUE asks for validation against the un-tabulated equations.       *)
(* Event (k = "rel"): a C13 relation instance, see RelOk.                  *)
(***************************************************************************)
EXTENDS TraceBase, V3Score


BaseTab  == TLCGet(42)     \* MC_V3Base's table: ver \o base codes -> tenth
InnerTab == TLCGet(41)     \* MC_V3Env's table

VecOf(ev) ==
  [n \in Range(V3AllNames) |->
     LET i == CHOOSE j \in 1..22 : V3AllNames[j] = n
     IN IF i <= 8 THEN Char(ev.b, i) ELSE IF i <= 11 THEN Char(ev.t, i - 8) ELSE Char(ev.e, i - 11)]

WellFormed(ev) ==
  /\ ev.ver \in V3Versions /\ Len(ev.b) = 8 /\ Len(ev.t) = 3 /\ Len(ev.e) = 11
  /\ LET m == VecOf(ev) IN \A n \in DOMAIN m : m[n] \in V3CodeSet(n)

InnerKey(v, ch, k, av, ac, pr, ui) ==
  v \o "|" \o (IF ch THEN "C" ELSE "U") \o "|" \o ToString(k[1]) \o "," \o ToString(k[2]) \o ","
    \o ToString(k[3]) \o "|" \o ToString(av) \o "|" \o ToString(ac) \o "|" \o ToString(pr) \o "|" \o ToString(ui)

EnvInnerTab(ver, m) ==
  LET ms == Eff(m, "MS")
  IN InnerTab[InnerKey(ver, ms = "C",
        Sort3(Fac(m.CR, Eff(m, "MC")), Fac(m.IR, Eff(m, "MI")), Fac(m.AR, Eff(m, "MA"))),
        W3AV[Eff(m, "MAV")], W3AC[Eff(m, "MAC")], V3Weight("PR", Eff(m, "MPR"), ms), W3UI[Eff(m, "MUI")])]

Expected(ev, m) ==
  IF Has(ev, "d") /\ ev.d
  THEN CASE ev.lvl = "B" -> V3BaseTenth(ev.ver, m)
         [] ev.lvl = "T" -> V3TemporalTenth(ev.ver, m)
         [] ev.lvl = "E" -> V3EnvTenth(ev.ver, m)
  ELSE CASE ev.lvl = "B" -> BaseTab[ev.ver \o ev.b]
         [] ev.lvl = "T" -> TemporalOf(ev.ver, BaseTab[ev.ver \o ev.b], m.E, m.RL, m.RC)
         [] ev.lvl = "E" -> TemporalOf(ev.ver, EnvInnerTab(ev.ver, m), m.E, m.RL, m.RC)

ScoreVerdict(ev) ==
  IF ~WellFormed(ev) THEN "harness:malformed event"
  ELSE LET x == Expected(ev, VecOf(ev))
       IN IF ev.obs = x THEN "ok" ELSE "score:expected " \o TenthStr(x) \o " observed " \o ev.str

GridVerdict(ev) ==
  IF ~(ev.obs \in 0..100) THEN "grid:score outside 0.0..10.0: " \o ev.str
  ELSE IF ~ev.ex THEN "grid:score is not a multiple of 0.1: " \o ev.str
  ELSE IF ev.str \notin Prints(ev.obs) THEN "grid:prints as " \o ev.str
  ELSE IF ev.sev # V3SeverityBand(ev.obs) THEN "severity:" \o ev.sev \o " for score " \o ev.str
  ELSE "ok"

\* C13 relation instances: lo/hi are observed tenths of two levels of one vector
RelOk(ev) ==
  CASE ev.rel = "temporalAllND=base" -> ev.lo = ev.hi
    [] ev.rel = "envAllND=temporal" -> (ev.ver = "3.1" /\ ev.scope = "C") \/ ev.lo = ev.hi
    [] ev.rel = "temporal<=base" -> ev.lo <= ev.hi
    [] OTHER -> FALSE

\* the outer (temporal) step of the environmental equation on an observed inner score
OuterVerdict(ev) ==
  LET x == TemporalOf(ev.ver, ev.inner, Char(ev.t, 1), Char(ev.t, 2), Char(ev.t, 3))
  IN IF ev.obs = x /\ ev.ex THEN "ok"
     ELSE "score:outer step expected " \o TenthStr(x) \o " observed " \o ev.str

Verdict(ev) ==
  CASE ev.k = "v3" /\ Pid \in {"C01", "C02", "C03"} -> ScoreVerdict(ev)
    [] ev.k = "v3t" -> IF Pid = "C03" THEN OuterVerdict(ev) ELSE "ok"
    [] ev.k = "v3" /\ Pid = "C06" -> GridVerdict(ev)
    [] ev.k = "rel" -> IF RelOk(ev) THEN "ok" ELSE "relation:" \o ev.rel
    [] OTHER -> "harness:unknown event"

Init == /\ InstallV3Tables
        /\ TLCSet(41, JsonDeserialize(IOEnv.VERIF_GEN \o "/v3envinner.json"))
        /\ TLCSet(42, JsonDeserialize(IOEnv.VERIF_GEN \o "/v3base.json"))
        /\ LoadTrace
        /\ TraceInit
Next == (l <= Len(Trace) /\ Step(Verdict(Trace[l]))) \/ Finish
Spec == Init /\ [][Next]_<<l, nbad>>
=============================================================================
