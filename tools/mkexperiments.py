#!/usr/bin/env python3
"""Regenerates DESIGN.md 11.8 (mutation sweep) and 11.9 (false-alarm experiment) between the EXPERIMENTS markers
from /verif/mutants/results.ndjson and /verif/benign/*/result.json."""
import glob, json, os, re

TRIAGE = {
    "23b8b657be": "equivalent: v3 scores lie on the 0.1 grid (C06), so `< 8.99` and `< 9.0` select the same scores",
    "056abe0987": "equivalent: the v3 impact sub score is 0 or at least 1.41 (one Low impact, scope unchanged), never in (0, 1]",
    "a0a83e0f1a": "outside the properties: the weight returned for an *invalid* Remediation Level; `Score()` answers 0 for such an object before the weight is used (C12), and C20 fixes the weights of the specification's values only",
    "d7716107f8": "outside the properties: the weight returned for an *invalid* v2 Report Confidence (as above)",
    "1229ca7c4b": "outside the properties: `IsDefined()` of a v2 requirement has no caller in the library and no listed property speaks of it; shown as MODEL-DRIFT by the tables check",
    "5934d61991": "outside the properties: unused `IsDefined()` of v2 Report Confidence (MODEL-DRIFT only)",
    "62030bad42": "outside the properties: unused `IsDefined()` of the v2 Integrity Requirement (MODEL-DRIFT only)",
    "61fb99dbdc": "equivalent: `Temporal.decodeOne` hands every token to `Base.decodeOne` first, which applies the same well-formedness test and returns the invalid-vector error before the weakened test is reached",
    "fa832517aa": "equivalent for the library's functions: the table entry of Not Defined is only tested for presence (`IsValid`); `Value()` takes the base metric's weight for Not Defined before the table is read",
    "6c734c3fbb": "equivalent: `strconv.FormatFloat` treats every negative precision as 'shortest representation'",
    "2828dc99b4": "outside the properties: weight returned for an *invalid* v3 Report Confidence (Score() answers 0 before using it)",
    "1ca073b305": "outside the properties: weight returned for an *invalid* v2 Exploitability",
    "1f298956e1": "outside the properties: weight returned for an *invalid* v2 Confidentiality Requirement",
    "7937d0c3c3": "outside the properties: weight returned for an *invalid* v2 Target Distribution",
    "4179489091": "outside the properties: weight returned for an *invalid* Modified Integrity value",
    "13fc6838d9": "equivalent: `strconv.FormatFloat` treats every negative precision as 'shortest representation'",
    "cff00d0de7": "equivalent: `strconv.FormatFloat` treats every negative precision as 'shortest representation'",
    "acd4227e4f": "outside the properties: unused `IsDefined()` of v2 Remediation Level (MODEL-DRIFT only)",
    "cb1acf5eaa": "outside the properties: unused `IsDefined()` of v2 Remediation Level (MODEL-DRIFT only)",
    "a07120fd6f": "equivalent for the library's functions: the table entry of Not Defined is only tested for presence",
    "e7f5a5197b": "equivalent: `Environmental.decodeOne` hands every token to `Temporal.decodeOne` / `Base.decodeOne` first, which apply the same well-formedness test",
    "a693dbb5af": "inside the properties: an unsupported metric is now reported at once and every other token error is deferred to the end of the loop; acceptance is unchanged and the reported sentinel still names a defect the vector has (C11 asks for that, not for a particular choice among several) -- the same latitude as `L1` of 11.9",
    "a1f611e1b8": "inside the properties: as the line above, for the v2 Environmental decoder",
    "c589ef5680": "outside the properties: weight returned for an *invalid* v2 Availability Requirement",
    "26921afafa": "outside the properties: weight returned for an *invalid* Modified Availability value",
    "32e4b8c33a": "outside the properties: weight returned for an *invalid* Privileges Required value",
    "f76ae77365": "outside the properties: weight returned for an *invalid* Modified Privileges Required value",
    "d67734f9cd": "outside the properties: unused `IsDefined()` of the v2 Availability Requirement (MODEL-DRIFT only)",
    "7ee1e3676a": "equivalent: the v2 Environmental decodeOne hands every token to Temporal/Base decodeOne first, which apply the same well-formedness test and return before the weakened test is reached",
    "42506d9901": "equivalent: as above, for the v2 Temporal decodeOne",
    "8995821a07": "equivalent: as above, for the v3 Environmental decodeOne",
    "10c59a60b5": "inside the properties: in Base.Decode an unsupported metric is reported at once and other token errors are deferred; acceptance is unchanged and the sentinel names a defect the vector has (latitude of C11, as `L1`)",
    "0edaac976d": "equivalent: v2 scores lie on the 0.1 grid, so `>= 3.99` and `>= 4.0` select the same scores",
    "8380e403b5": "outside the properties: unused `IsDefined()` of the v2 Integrity Requirement (MODEL-DRIFT only)",
    "4a5eb510a3": "not a violation: capping AdjustedImpact at 9.99 instead of 10 changes 405 of the 46,656 adjusted base scores, and every one of them changes from the KF-1 value to the value of the exact equation (checked independently with rationals); C05 correctly reports fewer KNOWN-FINDING observations and no violation",
}


def mutation():
    p = "/verif/mutants/results.ndjson"
    if not os.path.exists(p):
        return "(no sweep recorded)\n"
    rs = [json.loads(l) for l in open(p)]
    by = {}
    for r in rs:
        by.setdefault(r["status"], []).append(r)
    n = len(rs)
    valid = n - len(by.get("invalid", [])) - len(by.get("error", []))
    surv = valid - len(by.get("killed_by_tests", []))
    det = by.get("detected", [])
    per = {}
    for r in det:
        for c in r["detected_by"]:
            per[c] = per.get(c, 0) + 1
    out = []
    out.append("%d sampled mutants (seeded sample of the %s candidates the operators produce on the non-test sources): %d do not compile or vet, "
               "%d are killed by the repository's own tests, **%d survive the tests**. Of those, **%d raise a VIOLATION** in a quick check "
               "(first alarming check: %s), %d change no recorded observation at all and %d change observations without violating a property.\n"
               % (n, "1,579", len(by.get("invalid", [])), len(by.get("killed_by_tests", [])), surv, len(det),
                  ", ".join("%s x%d" % (c, k) for c, k in sorted(per.items())), len(by.get("unobserved", [])), len(by.get("observed_not_flagged", []))))
    out.append("\nEvery survivor that raised no alarm was triaged by hand:\n\n| mutant | change | verdict |\n|---|---|---|\n")
    for k in ("unobserved", "observed_not_flagged", "error"):
        for r in by.get(k, []):
            chg = "`%s` -> `%s`" % (r.get("old", "")[:110].replace("|", "\\|"), r.get("new", "")[:110].replace("|", "\\|"))
            out.append("| `%s:%d` %s | %s | %s |\n" % (r["file"], r["line"], r["op"], chg, TRIAGE.get(r["id"], "**not yet triaged**")))
    return "".join(out)


def benign():
    rows = []
    for d in sorted(glob.glob("/verif/benign/*/")):
        name = os.path.basename(d.rstrip("/"))
        rp = os.path.join(d, "result.json")
        if not os.path.exists(rp):
            continue
        r = json.load(open(rp))
        am = json.load(open(os.path.join(d, "agent_meta.json"))) if os.path.exists(os.path.join(d, "agent_meta.json")) else {}
        summ = (am.get("summary") or "").replace("\n", " ").replace("|", "/")
        if len(summ) > 260:
            summ = summ[:257] + "..."
        alarms = [c for c, x in r["checks"].items() if x["exit"] == 1 or x["violations"]]
        infra = [c for c, x in r["checks"].items() if x["exit"] not in (0, 1)]
        drift = ["%s: %d" % (c, x["model_drift"]) for c, x in sorted(r["checks"].items()) if x.get("model_drift")]
        rows.append("| `%s` | %s | %s | %d | %s | %s | %s |" % (name, summ, r.get("diffstat", ""), len(r["checks"]),
                                                             ", ".join(alarms) or "none", ", ".join(infra) or "none", ", ".join(drift) or "-"))
    return ("| change | what was changed | size | checks run | alarms | infrastructure failures | MODEL-DRIFT diagnostics |\n|---|---|---|---|---|---|---|\n" + "\n".join(rows) + "\n")


p = "/verif/DESIGN.md"
s = open(p).read()
s = re.sub(r"<!-- MUTATION:BEGIN -->.*?<!-- MUTATION:END -->", "<!-- MUTATION:BEGIN -->\n" + mutation() + "<!-- MUTATION:END -->", s, flags=re.S)
s = re.sub(r"<!-- BENIGN:BEGIN -->.*?<!-- BENIGN:END -->", "<!-- BENIGN:BEGIN -->\n" + benign() + "<!-- BENIGN:END -->", s, flags=re.S)
open(p, "w").write(s)
print("ok")
