#!/usr/bin/env python3
"""seedregress.py [--jobs J] [name-regex]
Runs the quick check of each seeded change's OWN property (and, where that never was the detecting one, the recorded detecting
check) against the change once more with the CURRENT machinery, in scratch worktrees of /repo's HEAD, and records the outcome in
seeded/<name>/meta.json under "regress".  A seeded change that no longer raises a VIOLATION is printed as LOST."""
import json, os, queue, re, shutil, subprocess, sys, threading, time, glob

jobs = 3
args = sys.argv[1:]
if args and args[0] == "--jobs":
    jobs = int(args[1]); args = args[2:]
rx = re.compile(args[0]) if args else None
ENV = dict(os.environ, GOFLAGS="-mod=mod", GOPROXY="off", GOSUMDB="off", GOTOOLCHAIN="local")
names = [os.path.basename(d.rstrip("/")) for d in sorted(glob.glob("/verif/seeded/*/"))]
if rx:
    names = [n for n in names if rx.search(n)]
q = queue.Queue()
for n in names:
    q.put(n)
lock = threading.Lock()
lost = []


def sh(cmd, cwd, env):
    p = subprocess.run(cmd, shell=True, cwd=cwd, env=env, capture_output=True, text=True, timeout=7200)
    return p.returncode, p.stdout + p.stderr


def worker(slot):
    wt = "/tmp/wt/regress%d" % slot
    subprocess.run("git -C /repo worktree add -q --detach %s HEAD" % wt, shell=True, check=True)
    env = dict(ENV, VERIF_REPO=wt, VERIF_SEED="1", VERIF_EVIDENCE_DIR="/tmp/wt/regress-ev%d" % slot, VERIF_REPLAY_DIR="/tmp/wt/regress-rp%d" % slot)
    try:
        while True:
            try:
                n = q.get_nowait()
            except queue.Empty:
                return
            d = "/verif/seeded/" + n
            m = json.load(open(d + "/meta.json"))
            sh("git checkout -q -- . && git clean -fdq", wt, env)
            rc, out = sh("git apply %s/patch.diff" % d, wt, env)
            if rc != 0:
                res = {"error": "patch does not apply: " + out[-200:]}
            else:
                own = m.get("property")
                det = m["confirmed"].get("detected_by", [])
                todo = [own] + [c for c in det if c != own][:1] if own not in det else [own]
                res = {"when": time.strftime("%Y-%m-%d %H:%M"), "checks": {}}
                for c in todo:
                    rc, out = sh("bin/check %s --tier quick" % c, "/verif", env)
                    res["checks"][c] = {"exit": rc, "violations": len([l for l in out.splitlines() if l.startswith("VIOLATION")])}
                res["detected_by"] = [c for c, r in res["checks"].items() if r["exit"] == 1 and r["violations"]]
            m["regress"] = res
            with lock:
                json.dump(m, open(d + "/meta.json", "w"), indent=1)
                ok = bool(res.get("detected_by"))
                if not ok:
                    lost.append(n)
                print("%-60s %s %s" % (n, "ok  " if ok else "LOST", res.get("checks") or res.get("error")), flush=True)
    finally:
        subprocess.run("git -C /repo worktree remove --force %s; git -C /repo worktree prune" % wt, shell=True)
        shutil.rmtree("/tmp/wt/regress-ev%d" % slot, ignore_errors=True)
        shutil.rmtree("/tmp/wt/regress-rp%d" % slot, ignore_errors=True)


os.makedirs("/tmp/wt", exist_ok=True)
ts = [threading.Thread(target=worker, args=(j,)) for j in range(jobs)]
[t.start() for t in ts]
[t.join() for t in ts]
print("regression over %d seeded changes: %d lost %s" % (len(names), len(lost), lost))
