#!/usr/bin/env python3
"""seedtest.py <name> <src OUT dir> <demo package dir> <check ids,...>
Confirms a seeded change independently (applies to /repo, existing tests pass, demo fails with it and passes without),
runs the named checks against it, reverts /repo, and stores everything under /verif/seeded/<name>/."""
import json, os, shutil, subprocess, sys, time

name, src, demodir, checks = sys.argv[1], sys.argv[2], sys.argv[3], sys.argv[4].split(",")
dst = "/verif/seeded/" + name
os.makedirs(dst, exist_ok=True)
for f in ("patch.diff", "demo_test.go", "meta.json"):
    if os.path.exists(os.path.join(src, f)) and os.path.abspath(src) != os.path.abspath(dst):
        shutil.copy(os.path.join(src, f), os.path.join(dst, f if f != "meta.json" else "agent_meta.json"))
env = dict(os.environ, GOFLAGS="-mod=mod", GOPROXY="off", GOSUMDB="off", GOTOOLCHAIN="local")
# the change is applied in a scratch worktree of /repo's HEAD (removed afterwards), never in /repo itself, so that
# long-running checks of the unchanged tree are not disturbed; the checks are pointed at it with VERIF_REPO
SCRATCH = "/tmp/wt/seedrepo-%d" % os.getpid()
subprocess.run("git -C /repo worktree add --detach %s HEAD -q" % SCRATCH, shell=True, check=True)
env["VERIF_REPO"] = SCRATCH


def sh(cmd, cwd=None, timeout=3600):
    cwd = cwd or SCRATCH
    p = subprocess.run(cmd, shell=True, cwd=cwd, env=env, capture_output=True, text=True, timeout=timeout)
    return p.returncode, (p.stdout + p.stderr)


def clean():
    sh("git checkout -- . && git clean -fdq -- v2 v3 cvsserr sample")


res = {"ran": []}
# a demonstration that uses the build-tag hook carries "//go:build verif" and must be run with the tag
TAGS = "-tags verif " if "go:build verif" in open(os.path.join(dst, "demo_test.go")).read() else ""
demo_dst = os.path.join(SCRATCH, demodir, "zz_seeded_demo_test.go")
try:
    # demo on the unchanged tree
    shutil.copy(os.path.join(dst, "demo_test.go"), demo_dst)
    rc, out = sh("go test %s-count=1 -run 'Seeded|Demo|C[0-9][0-9]' ./%s/" % (TAGS, demodir))
    res["demo_passes_without_change"] = rc == 0
    os.remove(demo_dst)
    rc, out = sh("git apply %s/patch.diff" % dst)
    assert rc == 0, out
    rc, out = sh("go build ./... && go test -count=1 ./...")
    res["existing_tests_pass_with_change"] = rc == 0
    res["ran"].append("git apply patch.diff; go build ./... && go test -count=1 ./...  -> rc %d" % rc)
    shutil.copy(os.path.join(dst, "demo_test.go"), demo_dst)
    rc, out = sh("go test %s-count=1 -run 'Seeded|Demo|C[0-9][0-9]' ./%s/" % (TAGS, demodir))
    res["demo_fails_with_change"] = rc != 0
    res["demo_output_tail"] = out[-600:]
    os.remove(demo_dst)
    res["checks"] = {}
    # evidence files describe runs on the UNCHANGED tree: keep them out of the seeded runs
    saved = {}
    for c in checks:
        ep = "/verif/evidence/%s.json" % c
        if os.path.exists(ep):
            saved[ep] = open(ep).read()
    for c in checks:
        t = time.time()
        rc, out = sh("bin/check %s --tier quick" % c, cwd="/verif")
        viol = [l for l in out.splitlines() if l.startswith("VIOLATION")]
        what = [l.strip() for l in out.splitlines() if l.strip().startswith("what:")]
        res["checks"][c] = {"exit": rc, "violations": len(viol), "first": what[:2], "wall_s": round(time.time() - t, 1)}
        res["ran"].append("bin/check %s --tier quick -> exit %d, %d VIOLATION lines" % (c, rc, len(viol)))
finally:
    for ep, txt in (saved if "saved" in dir() else {}).items():
        open(ep, "w").write(txt)
    for f in __import__("glob").glob("/verif/replay/C*-*.json"):
        os.remove(f)
    subprocess.run("git -C /repo worktree remove --force %s" % SCRATCH, shell=True)
res["repo_clean_after"] = subprocess.run("git -C /repo status --porcelain", shell=True, capture_output=True, text=True).stdout.strip() == ""
res["applied_in"] = "scratch worktree of /repo HEAD (VERIF_REPO), removed afterwards"
res["detected_by"] = [c for c, r in res.get("checks", {}).items() if r["exit"] == 1]
am = {}
try:
    am = json.load(open(os.path.join(dst, "agent_meta.json")))
except Exception:
    pass
meta = {"name": name, "property": am.get("property", checks[0]), "summary": am.get("summary"), "needs": am.get("needs"),
        "witness": am.get("witness"), "demo": {"file": "demo_test.go", "package_dir": demodir,
                                              "command": "go test -count=1 -run 'Seeded|Demo|C[0-9][0-9]' ./%s/" % demodir},
        "confirmed": res}
json.dump(meta, open(os.path.join(dst, "meta.json"), "w"), indent=1)
print(json.dumps({k: res.get(k) for k in ("demo_passes_without_change", "existing_tests_pass_with_change", "demo_fails_with_change", "detected_by", "repo_clean_after")}))
print(json.dumps(res.get("checks"), indent=0)[:1500])
