#!/usr/bin/env python3
"""Regenerates the seeded-changes table of DESIGN.md section 11.6 from seeded/*/meta.json."""
import json, glob, os, re
NOTES = {
 'C18-r17-three-letter-language-truncated': 'Strengthened: first missed by both; the language tags now contain three-letter languages whose first two letters spell ja / en (jam, jam-JM, jam-Latn, jaa, jpx, enq, enm-GB), in the names table (C18) and in the reports (C17). The names functions are untouched by this change: the report check (C17) sees it.',
 'C16-r16-shared-copy-buffer-plain-readers': 'Strengthened: first missed; the concurrent exports now also go through ExportWith with a reader that has no WriteTo method.',
 'C18-r16-option-append-aliasing': 'Strengthened: first missed; a share of the reports takes its options from a longer list of which a prefix was used for another report before. The names functions are untouched by this change: the report check (C17) sees it.',
 'C10-r16-trimspace-name-bookkeeping': 'The vectors concerned are outside the acceptance language, so it is the acceptance check (C07) that reports them; C10 speaks of accepted vectors.',
 'C17-r14-env-report-shortcut-forgets-ms': 'Strengthened: first missed; reports are now also built for vectors with exactly one optional metric defined (every metric, every defined value, written alone or with the others spelled X).',
 'C09-r14-v2-base-remembers-last-score': 'The decoded fields stay right; what changes is the base / temporal score of the views after the environmental score was asked, which the score check of those views (C04) and the history check (C15) report.',
 'C16-r13-codetable-refresh-on-miss': 'Strengthened: first missed; the concurrent jobs now contain an invalid value code for every optional metric of both families (the miss path of every code lookup) next to a valid vector that carries every Modified metric.',
 'C15-r12-v2-temporal-multiply-in-map-order': 'Strengthened: first missed (the flipping value is an exact rounding tie, which C04 rightly admits either way); C15 now repeats every query on one object and on a second one over the whole v2 base/temporal domain and seeded environmental vectors of both families.',
 'C16-r12-intern-table-written-on-unknown-name': 'Strengthened: first missed; the stress mix decodes vectors with metric names never seen before in the process.',
 'C11-r12-poc-alias-reported-misordered': 'Strengthened: first caught by C20 only; valid vectors with one value code respelled in another upper/lower-case mix were added to the language inputs, and C20 probes every case spelling of every code.',
 'C03-r12-pooled-decoder-reset-forgets-ma': 'Strengthened: first missed; before every nil-receiver decode of the score harnesses a rejected vector with all optional metrics defined goes through a nil receiver.',
 'C18-r11-stacked-language-options': 'Strengthened: first missed by both; a share of the reports is now built with several stacked language options of which the last decides. The names functions themselves are untouched by this change, so it is the report check (C17) that sees it.',
 'C19-r10-errs-cause-loses-sentinel': 'Strengthened: first missed; failing readers now fail with ten kinds of error (plain, io sentinels, a custom type, %w chains, errs.New / errs.Wrap with causes and contexts).',
 'C16-r10-v2-score-memo-key-eviction': 'Strengthened: first missed (the shared v2 object had equal base and adjusted impact); the shared objects now include vectors whose levels disagree (requirements that change the adjusted impact, Modified Scope different from Scope) and the lower views are asked Score, Severity and Encode.',
 'C08-r10-max-vector-len-74': 'Strengthened: first missed; vectors in which every metric takes one of its longest (or shortest) value codes at once are generated for all levels.',
 'C05-r10-env-memo-keyed-by-temporal-score': 'Strengthened: first missed; the adjusted base scores are computed once more on ONE carrier per (CR, IR, AR) with the base metrics swept in the order of their base score.',
 'C20-r9-code-table-low-byte': 'Strengthened: first missed; the code probes now contain look-alikes outside ASCII (same low byte or low 7 bits as a code character, fullwidth forms, combining marks, high-bit bytes, a leading BOM).',
 'C18-r9-value-index-uint8': 'Strengthened: first missed; out-of-range enumeration values now include those congruent to a defined value modulo 2^8, 2^16 and 2^32 and the extreme integers (names, printers).',
 'C19-r8-size-not-len-partly-consumed-reader': 'Strengthened: first missed; exports now also read from readers of the standard library (strings, bytes, Buffer, SectionReader, bufio, LimitReader, MultiReader), fresh, partly consumed or positioned by Seek.',
 'C16-r8-shared-error-annotated-in-place': 'Strengthened: first missed; the concurrent jobs now cover every error path of every decoder kind (incomplete vectors, deferred unsupported-metric error, other versions, v2 group and order defects) and the full rendering of an error belongs to the compared outcome.',
 'C15-r8-default-options-shared-pointer': 'Strengthened: first caught by C17 only; the three processing orders of C15 now also record the report built without options while reports in four languages are interleaved.',
 'C12-r8-env-score-memo-not-reset-by-view-decode': 'Strengthened: first caught by C15 only; the histories now ask the score, severity and encoding once right after the first Decode, so that a value remembered from before a field reset is served to the closing battery.',
 'C01-r7-score-memo-key-overflow': 'Strengthened: C01 first missed it (it needs a query on a partially decoded object); the score harnesses now decode every base vector once more with a seeded query asked of the receiver at every token boundary (decodeOne hook) and once through nil receivers.',
 'C02-r7-nil-receiver-rc-default': 'Strengthened: first missed; the score harnesses now also decode through typed nil receivers with the optional metrics omitted.',
 'C09-r7-score-shallow-copy-writes-scope': 'Strengthened: the fields are read again after the queries (f2); as worded C09 speaks of the fields Decode produced, the mutation by Score() is C15 matter and was caught there from the start.',
 'C15-r6-v2-geterror-cache': 'Strengthened: every history is run again with seeded queries (and report constructions) injected before each state-changing operation, also on the receiver before its first Decode; decode outcomes, snapshots and the closing battery must equal those of the plain run (InjectVerdict).',
 'C16-r6-shared-base-template': 'Strengthened: the stress mix exports templates that define a nested template of the same name with different bodies.',
 'C12-r6-decode-checks-base-only': 'Strengthened: an object returned without an error must be valid (also by a Decode into a used receiver); MC_Objects got inputs that leave an invalid optional metric behind and inputs that do not overwrite it.',
 'C17-r5-env-score-copied-from-temporal': 'Strengthened: base-only (and base+temporal) vectors are now also rendered as temporal / environmental reports.',
 'C18-r5-negative-cache-parent-index': 'Strengthened: display names are read once before and once after all the other language tags were used (first_title / first_vals) and the regional tag list was widened.',
 'C09-isempty-shortcut-x-vs-omitted': 'Strengthened: first run missed it; C03 now decodes every (version, base) with no / all / some optional metrics spelled X, C09 pairs every base vector omitted-vs-spelled.',
 'C05-clamp-negative-adjusted-base': 'Strengthened: caught only after the negative-equation latitude was tightened to the environmental equation itself (11.4).',
 'C19-reader-data-with-eof': 'Strengthened: readers that deliver the last bytes together with io.EOF and templates beyond 4 KiB / 64 KiB were added.',
 'C15-modified-impact-cache-no-version': 'Strengthened: the three processing orders now run in three fresh processes (a never-evicted cache makes later passes of one process agree).',
 'C19-r2-shared-template-set': 'Strengthened: a history pass exports all hand-written templates (several sharing sub-template names) one after the other, forwards / backwards / forwards, each compared with a fresh text/template run.',
 'C10-r2-string-memo-shared-slot': 'Strengthened: the object and its lower-level views are now queried in varying order and String()=Encode() is also required of every view.',
 'C11-r2-splitn-32-parts': 'Strengthened: valid vectors followed by 1..129 surplus well-formed tokens of one kind were added (inputs up to 1,500 bytes are judged by TLC).',
 'C12-r2-v2-isempty-by-values': 'Strengthened: MC_Objects now also resets / sets every metric of one group at once.',
 'C15-r2-v2-encode-aliases-names': 'MC_Objects sets a directly assigned field to a defined value and to the Not Defined one; the snapshot (names map) changes under Encode.',
 'C16-r2-vectorbuffer-pool-double-put': 'Strengthened: the stress mix now contains queries on freshly constructed (invalid) objects of every kind.',
 'C07-r2-requirement-substring-codes': 'C20 probes were extended with concatenations of the codes of one metric.',
 'C14-r2-v2-temporal-factor-cache-grouping': 'Strengthened: C14 now includes all 73,629 v2 base/temporal vectors (the defect needs one base vector and 6 of 100 temporal combinations).',
}
rows = []
for d in sorted(glob.glob('/verif/seeded/*/')):
    m = json.load(open(d + 'meta.json'))
    c = m['confirmed']
    name = os.path.basename(d.rstrip('/'))
    summ = (m.get('summary') or '').replace('\n', ' ').replace('|', '/')
    if len(summ) > 240:
        summ = summ[:237] + '...'
    ok = c.get('demo_passes_without_change') and c.get('existing_tests_pass_with_change') and c.get('demo_fails_with_change')
    rows.append("| `%s` | %s | %s %s | %s | %s |" % (name, m.get('property'), summ, NOTES.get(name, ''), 'yes' if ok else 'NO', ', '.join(c.get('detected_by', [])) or '(missed)'))
t = "| seeded change | property | what it does | confirmed | caught by (quick tier) |\n|---|---|---|---|---|\n" + "\n".join(rows)
own, other = 0, []
for d in sorted(glob.glob('/verif/seeded/*/')):
    m = json.load(open(d + 'meta.json'))
    det = m['confirmed'].get('detected_by', [])
    if m.get('property') in det:
        own += 1
    elif det:
        other.append("`%s` (%s)" % (os.path.basename(d.rstrip('/')), ", ".join(det)))
t += ("\n\nAll %d confirmed changes raise a VIOLATION in the quick tier: %d in the check of the property they were written against "
      "(several also in neighbouring checks), %d only in the check of a neighbouring property, where the changed behaviour is the one that "
      "property speaks about: %s. (The `caught by` column lists the checks that were run against the change and raised the alarm, not every "
      "check that would.)\n" % (len(rows), own, len(other), "; ".join(other) or "-"))
p = '/verif/DESIGN.md'
s = open(p).read()
if '<!-- SEEDED:BEGIN -->' in s:
    s = re.sub(r'<!-- SEEDED:BEGIN -->.*<!-- SEEDED:END -->', '<!-- SEEDED:BEGIN -->\n' + t + '\n<!-- SEEDED:END -->', s, flags=re.S)
else:
    a = s.index('| seeded change | property | what it does | caught by |')
    b = s.index('## Appendix A')
    s = s[:a] + '<!-- SEEDED:BEGIN -->\n' + t + '\n<!-- SEEDED:END -->\n\n' + s[b:]
open(p, 'w').write(s)
print(len(rows), "rows")
