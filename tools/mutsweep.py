#!/usr/bin/env python3
"""mutsweep.py  -- systematic small changes ("mutants") of goark/go-cvss against the quick checks.

  mutsweep.py list                         number of candidate mutants per file
  mutsweep.py base                         digests of the traces the checks record on the unchanged tree (twice: unstable ones are dropped)
  mutsweep.py run  --n N [--seed S] [--only REGEX] [--jobs J]
                                           samples N mutants; for each, in a scratch worktree of /repo's HEAD:
                                             build, existing tests (failing -> "killed by tests", not interesting),
                                             then the trace digests of the relevant checks (recording only, no TLC);
                                             a check whose digest differs from the base is then run for real.
  mutsweep.py report                       summary of /verif/mutants/results.ndjson

Nothing is ever changed in /repo.  Scratch state is under /tmp/mut (removed by `mutsweep.py clean`).
A mutant that survives the tests and all checks is either equivalent (no observable behaviour changed) or a gap in the checks;
survivors are listed by `report` and were triaged by hand (DESIGN.md 11.8)."""
import argparse, hashlib, json, os, random, re, shutil, subprocess, sys, time
from concurrent.futures import ThreadPoolExecutor

VERIF = os.path.dirname(os.path.dirname(os.path.abspath(__file__)))
MUT = "/tmp/mut"
RESULTS = os.path.join(VERIF, "mutants", "results.ndjson")
ENV = dict(os.environ, GOFLAGS="-mod=mod", GOPROXY="off", GOSUMDB="off", GOTOOLCHAIN="local")

# checks that observe a package (cheap ones first); C16 (race detector, non-deterministic traces) is left out of the sweep
RELEVANT = [
    (r"^v3/metric/", ["C20", "C01", "C17", "C07", "C11", "C09", "C10", "C02", "C14", "C15", "C03", "C13", "C12", "C06"]),
    (r"^v2/metric/", ["C20", "C04", "C08", "C11", "C09", "C10", "C14", "C05", "C15", "C13", "C12", "C06"]),
    (r"^v3/report/names/", ["C18", "C17"]),
    (r"^v3/report/", ["C17", "C18", "C19"]),
    (r"^v3/version/", ["C20", "C07", "C17", "C10"]),
    (r"^cvsserr/", ["C11", "C12", "C07", "C08"]),
]
ALL = ["C01", "C02", "C03", "C04", "C05", "C06", "C07", "C08", "C09", "C10", "C11", "C12", "C13", "C14", "C15", "C17", "C18", "C19", "C20"]


def sh(cmd, cwd, env=None, timeout=3600):
    p = subprocess.run(cmd, shell=True, cwd=cwd, env=env or ENV, capture_output=True, text=True, timeout=timeout)
    return p.returncode, p.stdout + p.stderr


def sources():
    rc, out = sh("git ls-files '*.go'", "/repo")
    return [f for f in out.split() if not f.endswith("_test.go") and "verif_" not in f and not f.startswith("sample/")]


# ---------------------------------------------------------------------------
# mutation operators: (file, line number, operator, new line[, second line number, second new line])
# ---------------------------------------------------------------------------
def strip_comment(l):
    i = l.find("//")
    return l if i < 0 else l[:i]


def candidates(path):
    lines = open(os.path.join("/repo", path)).read().split("\n")
    out = []
    in_import = in_block_comment = False
    for i, raw in enumerate(lines):
        s = raw.strip()
        if in_block_comment:
            if "*/" in s:
                in_block_comment = False
            continue
        if s.startswith("/*"):
            in_block_comment = "*/" not in s
            continue
        if s.startswith("import ("):
            in_import = True
            continue
        if in_import:
            if s == ")":
                in_import = False
            continue
        if not s or s.startswith("//") or s.startswith("package ") or s.startswith("import "):
            continue
        code = strip_comment(raw)
        tail = raw[len(code):]

        def add(op, new):
            if new != code:
                out.append(dict(file=path, line=i + 1, op=op, old=raw, new=new + tail))
        # literals outside strings
        nostr = re.sub(r'"(?:[^"\\]|\\.)*"', lambda m: "\x00" * len(m.group(0)), code)
        for m in re.finditer(r"(?<![\w.])(\d+\.\d+)\b", nostr):
            v = m.group(1)
            d = len(v.split(".")[1])
            nv = ("%." + str(max(d, 2)) + "f") % (float(v) + (0.01 if float(v) < 1 else -0.01))
            add("float", code[:m.start(1)] + nv + code[m.end(1):])
        for m in re.finditer(r"(?<![\w.])(\d+)(?![\w.])", nostr):
            add("int+1", code[:m.start(1)] + str(int(m.group(1)) + 1) + code[m.end(1):])
        for a, b in (("<=", "<"), (">=", ">"), ("==", "!="), ("!=", "==")):
            for m in re.finditer(re.escape(a), nostr):
                add("rel " + a + "->" + b, code[:m.start()] + b + code[m.end():])
        for m in re.finditer(r"(?<![<\-])<(?![=<\-])", nostr):
            add("rel <-><=", code[:m.start()] + "<=" + code[m.end():])
        for m in re.finditer(r"(?<![>\-=])>(?![=>])", nostr):
            add("rel >->>=", code[:m.start()] + ">=" + code[m.end():])
        for a, b in (("&&", "||"), ("||", "&&")):
            for m in re.finditer(re.escape(a), nostr):
                add("logic " + a, code[:m.start()] + b + code[m.end():])
        for a, b in (("math.Min", "math.Max"), ("math.Max", "math.Min"), (" + ", " - "), (" - ", " + "), (" * ", " / ")):
            for m in re.finditer(re.escape(a), nostr):
                add("arith " + a.strip(), code[:m.start()] + b + code[m.end():])
        m = re.match(r"^(\s*(?:\} else )?if )(.*)( \{\s*)$", code)
        if m and ";" not in m.group(2):
            add("negate-if", m.group(1) + "!(" + m.group(2) + ")" + m.group(3))
        # short code strings: "H" -> "h" / "HX"
        for m in re.finditer(r'"([A-Z]{1,3})"', code):
            add("code-lower", code[:m.start(1)] + m.group(1).lower() + code[m.end(1):])
        # delete an assignment / a statement-call
        if re.match(r"^\s+[\w.\[\]\"]+\s*(?:=|\+=)\s*[^=]", code) and not s.endswith("{") and not s.endswith("("):
            add("delete-assign", re.match(r"^\s*", code).group(0) + "_ = 0")
        if re.match(r"^\s+return\s+\w+(\.\w+)*\s*$", code) and i + 1 < len(lines):
            pass
        # cross-wire the right-hand sides of two neighbouring table entries
        m1 = re.match(r"^(\s+[\w.\"]+:\s+)(.+?),\s*$", code)
        if m1 and i + 1 < len(lines):
            c2 = strip_comment(lines[i + 1])
            m2 = re.match(r"^(\s+[\w.\"]+:\s+)(.+?),\s*$", c2)
            if m2 and m1.group(2) != m2.group(2):
                out.append(dict(file=path, line=i + 1, op="swap-entries", old=raw, new=m1.group(1) + m2.group(2) + "," + tail,
                                line2=i + 2, new2=m2.group(1) + m1.group(2) + "," + lines[i + 1][len(c2):]))
        # swap the bodies of two neighbouring one-line case arms:  case A:\n return X \n case B:\n return Y
        if re.match(r"^\s+return\s+.+$", code) and i + 2 < len(lines) and re.match(r"^\s+case .*:$", strip_comment(lines[i + 1]).rstrip()) \
                and re.match(r"^\s+return\s+.+$", strip_comment(lines[i + 2])) and strip_comment(lines[i + 2]).strip() != s:
            out.append(dict(file=path, line=i + 1, op="swap-returns", old=raw, new=lines[i + 2], line2=i + 3, new2=raw))
    for k, c in enumerate(out):
        c["id"] = hashlib.sha1(json.dumps([c["file"], c["line"], c["op"], c["new"], c.get("new2")]).encode()).hexdigest()[:10]
    return out


def all_candidates(only=None):
    cs = []
    for f in sources():
        if only and not re.search(only, f):
            continue
        cs += candidates(f)
    return cs


def relevant(path):
    for rx, cks in RELEVANT:
        if re.search(rx, path):
            return cks
    return ALL


# ---------------------------------------------------------------------------
def fingerprints(repo, pids, tag, evdir):
    """pid -> {label: digest} from a recording-only run of the quick checks against `repo`."""
    res = {}
    for pid in pids:
        fp = os.path.join(MUT, "fp-%s-%s.ndjson" % (tag, pid))
        if os.path.exists(fp):
            os.remove(fp)
        env = dict(ENV, VERIF_REPO=repo, VERIF_FINGERPRINT=fp, VERIF_FP_CACHE=os.path.join(MUT, "tlc-cache"), VERIF_SEED="1",
                   VERIF_EVIDENCE_DIR=evdir, VERIF_REPLAY_DIR=os.path.join(MUT, "replay-" + tag))
        rc, out = sh("bin/check %s --tier quick" % pid, VERIF, env)
        d = {}
        if os.path.exists(fp):
            for l in open(fp):
                r = json.loads(l)
                d[r["label"]] = d.get(r["label"], "") + r["digest"] + ":%d;" % r["lines"]
            os.remove(fp)
        if rc != 0:
            d["__rc"] = "rc=%d %s" % (rc, out[-300:].replace("\n", " "))
        res[pid] = d
    return res


def cmd_base(a):
    os.makedirs(MUT, exist_ok=True)
    b1 = fingerprints("/repo", ALL, "base1", os.path.join(MUT, "ev"))
    b2 = fingerprints("/repo", ALL, "base2", os.path.join(MUT, "ev"))
    unstable = []
    for pid in ALL:
        for lab in set(b1[pid]) | set(b2[pid]):
            if b1[pid].get(lab) != b2[pid].get(lab):
                unstable.append([pid, lab])
                b1[pid].pop(lab, None)
    json.dump({"base": b1, "unstable": unstable, "head": sh("git rev-parse HEAD", "/repo")[1].strip()}, open(os.path.join(MUT, "base.json"), "w"), indent=1)
    print("base digests:", {p: len(v) for p, v in b1.items()}, "unstable:", unstable)


def one_mutant(slot, c, base):
    wt = os.path.join(MUT, "wt%d" % slot)
    tag = "m%d" % slot
    t0 = time.time()
    r = dict(id=c["id"], file=c["file"], line=c["line"], op=c["op"], old=c["old"].strip(), new=c["new"].strip())
    sh("git checkout -q -- . && git clean -fdq", wt)
    p = os.path.join(wt, c["file"])
    lines = open(p).read().split("\n")
    assert lines[c["line"] - 1] == c["old"]
    lines[c["line"] - 1] = c["new"]
    if "line2" in c:
        lines[c["line2"] - 1] = c["new2"]
        r["new"] += " // + " + c["new2"].strip()
    open(p, "w").write("\n".join(lines))
    rc, out = sh("go build ./... && go vet ./" + os.path.dirname(c["file"]) + "/", wt)
    if rc != 0:
        r["status"] = "invalid"
        return r
    rc, out = sh("go test -count=1 ./...", wt, timeout=1500)
    if rc != 0:
        r["status"] = "killed_by_tests"
        return r
    r["diff_checks"], r["detected_by"], r["drift_only"] = [], [], []
    for pid in relevant(c["file"]):
        f = fingerprints(wt, [pid], tag, os.path.join(MUT, "ev-" + tag))[pid]
        b = base["base"][pid]
        differs = "__rc" in f or any(f.get(lab) != dig for lab, dig in b.items())
        if not differs:
            continue
        r["diff_checks"].append(pid)
        env = dict(ENV, VERIF_REPO=wt, VERIF_SEED="1", VERIF_EVIDENCE_DIR=os.path.join(MUT, "ev-" + tag), VERIF_REPLAY_DIR=os.path.join(MUT, "replay-" + tag))
        rc, out = sh("bin/check %s --tier quick" % pid, VERIF, env)
        if rc == 1 and "VIOLATION property=" in out:
            r["detected_by"].append(pid)
            w = [l.strip() for l in out.splitlines() if l.strip().startswith("what:")]
            r["what"] = (w[0] if w else "")[:300]
            break                       # one check that raises the alarm is enough
        elif rc == 0:
            if "MODEL-DRIFT" in out:
                r["drift_only"].append(pid)
        else:
            r.setdefault("infra", []).append("%s rc=%d %s" % (pid, rc, out[-400:].replace("\n", " ")))
    r["status"] = "detected" if r["detected_by"] else ("observed_not_flagged" if r["diff_checks"] else "unobserved")
    r["wall_s"] = round(time.time() - t0, 1)
    sh("git checkout -q -- . && git clean -fdq", wt)
    return r


def cmd_run(a):
    base = json.load(open(os.path.join(MUT, "base.json")))
    cs = all_candidates(a.only)
    done = set()
    if os.path.exists(RESULTS):
        done = {json.loads(l)["id"] for l in open(RESULTS)}
    cs = [c for c in cs if c["id"] not in done]
    random.Random(a.seed).shuffle(cs)
    cs = cs[:a.n]
    os.makedirs(os.path.dirname(RESULTS), exist_ok=True)
    for j in range(a.jobs):
        wt = os.path.join(MUT, "wt%d" % j)
        if not os.path.exists(wt):
            subprocess.run("git -C /repo worktree add -q --detach %s HEAD" % wt, shell=True, check=True)
    import queue, threading
    q = queue.Queue()
    for c in cs:
        q.put(c)
    lock = threading.Lock()

    def worker(slot):
        while True:
            try:
                c = q.get_nowait()
            except queue.Empty:
                return
            try:
                r = one_mutant(slot, c, base)
            except Exception as e:
                r = dict(id=c["id"], file=c["file"], line=c["line"], op=c["op"], status="error", error=repr(e)[:300])
            with lock:
                with open(RESULTS, "a") as f:
                    f.write(json.dumps(r) + "\n")
                print(r["status"], r["file"], r["line"], r["op"], r.get("detected_by") or r.get("diff_checks") or "", flush=True)
    ts = [threading.Thread(target=worker, args=(j,)) for j in range(a.jobs)]
    [t.start() for t in ts]
    [t.join() for t in ts]


def cmd_report(a):
    rs = [json.loads(l) for l in open(RESULTS)]
    by = {}
    for r in rs:
        by.setdefault(r["status"], []).append(r)
    print({k: len(v) for k, v in by.items()})
    for k in ("unobserved", "observed_not_flagged", "error"):
        for r in by.get(k, []):
            print(k, r["id"], "%s:%d" % (r["file"], r["line"]), r["op"], "|", r.get("old"), "=>", r.get("new"), r.get("diff_checks") or "", r.get("infra") or "")


def cmd_list(a):
    cs = all_candidates(a.only)
    per = {}
    for c in cs:
        per[c["file"]] = per.get(c["file"], 0) + 1
    for f in sorted(per):
        print("%4d %s" % (per[f], f))
    print(len(cs), "candidates")


def cmd_clean(a):
    for d in os.listdir(MUT) if os.path.exists(MUT) else []:
        if d.startswith("wt"):
            subprocess.run("git -C /repo worktree remove --force %s" % os.path.join(MUT, d), shell=True)
    shutil.rmtree(MUT, ignore_errors=True)
    subprocess.run("git -C /repo worktree prune", shell=True)


ap = argparse.ArgumentParser()
ap.add_argument("cmd", choices=["list", "base", "run", "report", "clean"])
ap.add_argument("--n", type=int, default=50)
ap.add_argument("--seed", type=int, default=1)
ap.add_argument("--only")
ap.add_argument("--jobs", type=int, default=2)
a = ap.parse_args()
globals()["cmd_" + a.cmd](a)
