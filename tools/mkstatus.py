#!/usr/bin/env python3
"""Regenerates the per-property table of DESIGN.md section 11.7 from the committed evidence files (quick tier, unchanged tree)."""
import json, re
rows = []
for i in range(1, 21):
    p = "C%02d" % i
    e = json.load(open("/verif/evidence/%s.json" % p))
    c = e["coverage"]
    rows.append("| %s | %s | %s | %.0f | %s | %s | %s / %s | %s | %s |" % (
        p, e["level"], e["tier"], e["wall_s"], format(c["evaluations"], ","), format(c["distinct_nontrivial"], ","),
        format(c["states"], ","), format(c["transitions"], ","), c["traces_validated_against_impl"], "yes" if c.get("exhaustive") else "no"))
t = ("| property | level | tier | wall s | evaluations | distinct non-trivial | TLC states / transitions (this run) | trace chunks validated | exhaustive on its finite domain |\n"
     "|---|---|---|---|---|---|---|---|---|\n" + "\n".join(rows))
s = open("/verif/DESIGN.md").read()
block = "<!-- STATUS:BEGIN -->\n" + t + "\n<!-- STATUS:END -->"
if "<!-- STATUS:BEGIN -->" in s:
    s = re.sub(r"<!-- STATUS:BEGIN -->.*<!-- STATUS:END -->", block, s, flags=re.S)
else:
    s = s.replace("## Appendix A — the acceptance and defect relations", "### 11.7 What one quick run covers (from the committed evidence files)\n\n" + block +
                  "\n\nThe thorough tier was run once for every property on the unchanged tree (all exit 0): C01 93 s, C02 132 s, C03 29 min (whole 1.15e10 concrete product), "
                  "C04 48 s, C05 15 min, C06 17 min, C07 9 min (2.8e6 strings of the 2-edit neighbourhood), C08 3 min, C13 2 min, C17 2 min, C18 6 s, C20 8 s; the remaining ones are listed in the evidence of the last thorough run.\n\n"
                  "## Appendix A — the acceptance and defect relations", 1)
open("/verif/DESIGN.md", "w").write(s)
print("ok")
