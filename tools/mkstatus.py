#!/usr/bin/env python3
"""Regenerates the per-property table of DESIGN.md section 11.7 from the committed evidence files (quick tier, unchanged tree)."""
import json, re
rows = []
for i in range(1, 21):
    p = "C%02d" % i
    e = json.load(open("/verif/evidence/%s.json" % p))
    c = e["coverage"]
    rows.append("| %s | %s | %s | %.0f | %s | %s | %s / %s | %s | %s |" % (
        p, e["level"], e["tier"], e["wall_s"], format(c["evaluations"], ","), format(c["distinct_nontrivial"], ","),
        format(c["states"], ","), format(c["transitions"], ","), c["traces_validated_against_impl"], "yes" if c.get("exhaustive") else "no"))
t = ("| property | level | tier | wall s | evaluations | distinct non-trivial | TLC states / transitions (this run) | trace chunks validated | exhaustive on its finite domain |\n"
     "|---|---|---|---|---|---|---|---|---|\n" + "\n".join(rows))
s = open("/verif/DESIGN.md").read()
block = "<!-- STATUS:BEGIN -->\n" + t + "\n<!-- STATUS:END -->"
if "<!-- STATUS:BEGIN -->" in s:
    s = re.sub(r"<!-- STATUS:BEGIN -->.*<!-- STATUS:END -->", block, s, flags=re.S)
else:
    s = s.replace("## Appendix A — the acceptance and defect relations", "### 11.7 What one quick run covers (from the committed evidence files)\n\n" + block +
                  "\n\nThe thorough tier was run for all 20 properties on the unchanged tree after round 9 of 11.6 (one background run, all exit 0; wall times "
                  "while other work shared the machine): C01 42 s, C02 59 s, C03 31 min (the whole 1.15e10 concrete product), C04 13 s, C05 14 min, C06 16 min, "
                  "C07 11 min (2.8e6 strings of the 2-edit neighbourhood), C08 4 min, C09 24 min, C10 18 min, C11 15 min, C12 16 min, C13 1 min, C14 22 min, "
                  "C15 10 min, C16 16 min, C17 1 min, C18 2 s, C19 3 min, C20 5 s; the checks changed afterwards were run again at the end (all exit 0).\n\n"
                  "## Appendix A — the acceptance and defect relations", 1)
open("/verif/DESIGN.md", "w").write(s)
print("ok")
