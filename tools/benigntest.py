#!/usr/bin/env python3
"""benigntest.py <name> <src OUT dir> [check ids,...]
False-alarm experiment: applies a BEHAVIOUR-PRESERVING change (patch.diff written by an independent sub-agent) in a scratch
worktree of /repo's HEAD, runs the existing tests, then every quick check against it (VERIF_REPO), and stores the outcome under
/verif/benign/<name>/.  Every check is expected to exit 0 without a VIOLATION line; MODEL-DRIFT diagnostics are expected where the
change touches what the implementation-shaped layer describes.  /repo itself is never touched; evidence and replays of these
runs go to a scratch directory."""
import json, os, re, shutil, subprocess, sys, time

name, src = sys.argv[1], sys.argv[2]
ALL = ["C%02d" % i for i in range(1, 21)]
checks = sys.argv[3].split(",") if len(sys.argv) > 3 else ALL
dst = "/verif/benign/" + name
os.makedirs(dst, exist_ok=True)
for f in ("patch.diff", "meta.json"):
    if os.path.exists(os.path.join(src, f)) and os.path.abspath(src) != os.path.abspath(dst):
        shutil.copy(os.path.join(src, f), os.path.join(dst, f if f != "meta.json" else "agent_meta.json"))
env = dict(os.environ, GOFLAGS="-mod=mod", GOPROXY="off", GOSUMDB="off", GOTOOLCHAIN="local")
SCRATCH = "/tmp/wt/benignrepo-%d" % os.getpid()
OUT = "/tmp/wt/benignout-%d" % os.getpid()
subprocess.run("git -C /repo worktree add --detach %s HEAD -q" % SCRATCH, shell=True, check=True)
env.update(VERIF_REPO=SCRATCH, VERIF_EVIDENCE_DIR=OUT + "/ev", VERIF_REPLAY_DIR=OUT + "/replay", VERIF_SEED="1")


def sh(cmd, cwd=None, timeout=7200):
    p = subprocess.run(cmd, shell=True, cwd=cwd or SCRATCH, env=env, capture_output=True, text=True, timeout=timeout)
    return p.returncode, p.stdout + p.stderr


res = {"checks": {}}
if len(sys.argv) > 3 and os.path.exists(os.path.join(dst, "result.json")):
    res["checks"] = json.load(open(os.path.join(dst, "result.json")))["checks"]     # re-run of some checks: keep the others
try:
    rc, out = sh("git apply %s/patch.diff" % dst)
    assert rc == 0, out
    rc, out = sh("go build ./... && go build -tags verif ./... && go test -count=1 ./...")
    res["existing_tests_pass_with_change"] = rc == 0
    res["diffstat"] = sh("git diff --shortstat")[1].strip()
    for c in checks:
        t = time.time()
        rc, out = sh("bin/check %s --tier quick" % c, cwd="/verif")
        viol = [l for l in out.splitlines() if l.startswith("VIOLATION")]
        what = [l.strip() for l in out.splitlines() if l.strip().startswith("what:")]
        drift = [l for l in out.splitlines() if l.startswith("MODEL-DRIFT")]
        ndrift = int(re.search(r"(\d+) diagnostics", drift[0]).group(1)) if drift else 0
        infra = [l for l in out.splitlines() if l.startswith("INFRA-ERROR")]
        res["checks"][c] = {"exit": rc, "violations": len(viol), "first": what[:2], "model_drift": ndrift,
                            "drift_first": [d[:300] for d in drift[:2]], "infra": [i[:600] for i in infra[:1]], "wall_s": round(time.time() - t, 1)}
        print(c, rc, len(viol), ndrift, (what[:1] or infra[:1] or [""])[0][:200], flush=True)
finally:
    subprocess.run("git -C /repo worktree remove --force %s; git -C /repo worktree prune" % SCRATCH, shell=True)
    shutil.rmtree(OUT, ignore_errors=True)
res["alarms"] = [c for c, r in res["checks"].items() if r["exit"] == 1 or r["violations"]]
res["infra_failures"] = [c for c, r in res["checks"].items() if r["exit"] not in (0, 1)]
json.dump(res, open(os.path.join(dst, "result.json"), "w"), indent=1)
print(json.dumps({"tests_pass": res.get("existing_tests_pass_with_change"), "alarms": res["alarms"], "infra": res["infra_failures"]}))
