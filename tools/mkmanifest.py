#!/usr/bin/env python3
"""Writes /verif/MANIFEST.json from the table below (kept next to the checks so that the claimed
level, technique and design reference stay in one place)."""
import json, os, sys
sys.path.insert(0, os.path.join(os.path.dirname(os.path.dirname(os.path.abspath(__file__))), "lib"))
import checks

ALL = ["C%02d" % i for i in range(1, 21)]
TECH = "explicit TLA+ specification model-checked with TLC; conformance: Go harness replays/records the real library, TLC validates the recorded trace against the specification"
INFO = {
 "C01": ("model_checking", "V3Score (exact BigDec arithmetic) model-checked over all 5,184 (version, base vector) states with spec-level invariants; every state replayed through all three real decoders in several token orders; every distinct observation validated by TLC (Trace_V3). Exhaustive on version x metrics x decoder; token orders sampled.", "7 C01"),
 "C02": ("model_checking", "the whole temporal function (20,200 states) model-checked; all 518,400 (version, base, E, RL, RC) vectors decoded by the Temporal and Environmental decoders with X spelled/omitted; every distinct observation validated by TLC against V3Score.", "7 C02"),
 "C03": ("model_checking", "the inner environmental step tabulated exactly by TLC (16,128 states, invariants incl. direct-vs-tabulated agreement), expanded to 331,776 effective-code rows; all effective x temporal combinations executed on the real code and validated by TLC; the concrete product with Not Defined Modified metrics sampled in the quick tier and enumerated completely (1.15e10) in the thorough tier by composition of the TLC-emitted tables, raw subset validated by TLC.", "7 C03"),
 "C04": ("model_checking", "V2Score (set-valued rounding) tabulated by TLC; all 73,629 base/temporal vectors through all three decoders, every distinct observation validated by TLC; known finding KF-1 reported, everything else is a violation.", "7 C04, 8"),
 "C05": ("model_checking", "whole v2 environmental domain (1.4e8 vectors) executed on the real code in both tiers: adjusted base score of all 46,656 (base, CR, IR, AR) combinations validated against the exact equation, the outer steps validated as (adjusted base, temporal, CDP, TD, score) tuples; random vectors through Decode; KF-1 as for C04.", "7 C05, 8"),
 "C06": ("model_checking", "all scores reached by the C01-C05 scans and the report score fields collapsed to distinct observation tuples, each judged by TLC against the grid / printing / severity-band definitions of CvssTables (band partition checked at spec level).", "7 C06"),
 "C13": ("model_checking", "spec-level invariants (TemporalLeBase, AllNDIsIdentity, XIsNeutral, AllNDEqualsBase) plus the four relations observed on the real code over their complete domains, collapsed to tuples judged by TLC.", "7 C13"),
 "C20": ("model_checking", "complete probe of every metric type's parser, printer, validity predicate and weight function (all contexts) and both version parsers; every probe validated by TLC against CvssTables.", "7 C20"),
 "C07": ("model_checking", "Vector.tla states the v3 acceptance language declaratively; MC_Lang explores the character- and token-level edit neighbourhoods of seed vectors (lemmas: monotone in level, canonical fixed point, projection accepted) and every explored string, plus seeded random vectors, edits and byte strings, is decoded by all three real decoders; TLC validates each outcome (ok <=> Accepts, rejected => no object). Exhaustive within the stated edit bounds; arbitrary strings sampled.", "7 C07, Appendix A"),
 "C08": ("model_checking", "as C07 for the v2 language (complete groups, canonical order; lemma: accepted iff byte-identical to the canonical encoding).", "7 C08, Appendix A"),
 "C09": ("model_checking", "decoded fields, version and v2 group emptiness of every accepted input compared by TLC with Vector!Fields; pairs of two spellings (token order, X spelled or omitted) of one token set must be indistinguishable in fields, score, severity and encoding.", "7 C09"),
 "C10": ("model_checking", "Encode/String/re-decode of every accepted input validated by TLC against Vector!Canonical (v2: byte-identical to the input) and against the first decode (fields, score, severity, encoding).", "7 C10"),
 "C11": ("model_checking", "for every rejected input the errors.Is vector over the eleven exported sentinels is recorded; TLC requires exactly one match, that it names a defect in Vector!Defects(input), which forces the kind when only one is present.", "7 C11, Appendix A"),
 "C14": ("model_checking", "for every accepted temporal/environmental input the BaseMetrics()/TemporalMetrics() views (score, severity, encoding) are compared with an independent lower-level decode of Vector!Project(input) (TLC recomputes the projection).", "7 C14"),
 "C17": ("model_checking", "Report!ExpectedReport gives the value of every exported field (own level, embedded reports, shadowed unqualified names) from the object's observations and the display-name functions; all 5,184 base reports and seeded temporal/environmental reports in six languages validated field by field by TLC.", "7 C17"),
 "C18": ("model_checking", "complete display-name table (52 functions x enumeration integers -2..8, the integers congruent to a defined value modulo 2^8 / 2^16 / 2^32 and the extreme ones x 36 language tags (among them three-letter languages beginning with ja / en, and ja / en spelled by a script or private-use subtag), read before and after all other tags were used) validated by TLC against the relational specification.", "7 C18"),
 "C12": ("exploration", "Objects.tla defines validity of an object state; MC_Objects enumerates the receiver states (6 kinds x constructor/nil x 14 decode inputs x field and version resets, with lemmas on the abstract machine); every state is materialised on the real types and every query is applied through every accessor, each step validated by TLC (no panic, object xor error, error and score 0 on invalid receivers). Arbitrary input bytes are sampled (random, TLC-explored edits, degenerate, 1-8 MiB) through constructor and nil receivers.", "7 C12, Appendix B"),
 "C15": ("model_checking", "each query is validated by TLC as a stuttering step of the Objects machine: the recorded snapshots of all live objects (exported fields + unexported names maps) and the digest of the package-level tables are UNCHANGED, repeated calls agree, and the result equals that of a freshly decoded twin; every history is replayed with queries injected before each operation (also before the first Decode) and must give the results of the plain run; thousands of vectors with near-duplicates are decoded in three processing orders with report construction in four languages interleaved and must give identical results, including the report built without options.", "7 C15"),
 "C16": ("exploration", "Concurrent.tla: every interleaving of the pure design is race free with sequential results and each of six deliberate deviations (lazy table, memoised score, shared names set, shared scratch buffer, last-template cache, buffer pool with a double put) is caught by TLC (non-vacuity). Conformance: all 70 TLC-generated interleavings of the gated decodeOne steps of two goroutines replayed deterministically through the build-tag hook, plus free-running stress on 16-128 goroutines, all under the Go race detector; every result validated by TLC against the sequential reference.", "7 C16"),
 "C19": ("model_checking", "Template.tla specifies rendering for a template mini-language (41 segment kinds); MC_Template enumerates all templates of <=2 (quick) / <=3 (thorough) segments with compositionality lemmas; every template is exported from reports of all levels via string, chunked readers, failing readers, nil readers and nil reports; TLC validates output / clean failure against Template!Render and, for all templates incl. 40+ outside the grammar, against Go's text/template run on the same report.", "7 C19"),
}
NOTE = {
 "C12": "exploration level: 'any bytes, any length' is sampled; the state a failed Decode leaves in its receiver is unspecified (queries must not panic; the invalid-object rule applies if it shows an unknown value)",
 "C15": "observable state = exported fields + the bookkeeping of recorded metric names (found by shape through reflection; when a refactoring keeps it in another shape the exported fields stand in) + digest of the package-level tables through the public API; histories are bounded to MC_Objects' prefixes followed by the full query battery",
 "C16": "exploration level: data-race freedom itself is sensed by the Go race detector during trace recording, not derived from the TLA+ model; schedules beyond 4 gated steps per goroutine are not enumerated",
 "C19": "templates outside the grammar are judged against text/template as an environment function, as the property words it; Template!Render must agree with text/template on the grammar or the run is an infrastructure error",
 "C07": "trusted: injective ASCII escaping of input bytes; Appendix A's defect relation (validated on 1.26M prototype checks, and as lemmas in MC_Lang)",
 "C08": "as C07",
 "C09": "trusted: harness binding of exported constants to spec codes; acceptance disagreements are C07/C08's business and are skipped here",
 "C10": "as C09",
 "C11": "where several kinds of defect are present any of them may be reported (the property leaves this open)",
 "C14": "trusted: harness token filter for the projection is re-computed and compared by TLC (Vector!Project)",
 "C17": "expected names come from the names package for the like-named metric (C18 covers the table); a field wired to a neighbour with an equal value is invisible on that vector (vectors are drawn with differing neighbours)",
 "C18": "regional variants of en/ja are unspecified: they are used as a prologue (they must not change what other tags get) but their own names are not judged",
 "C01": "trusted: harness binding of exported constants to spec codes (cross-checked by C20 'defs' events), float projection (tenth, exactness, printed form); token orders beyond canonical/reversed are seeded samples",
 "C02": "trusted: as C01; the base score inside the temporal equation is the specification's (MC_V3Base table), so a wrong base score also surfaces here",
 "C03": "trusted: harness-side composition of TLC-emitted tables for the part of the concrete product TLC does not see event by event (cross-checked by TLC on the raw subset and on every disagreement)",
 "C04": "trusted: as C01 for v2 (v2tab.go). KF-1 (known_findings.json) is matched only on listed keys and only when the observation is exactly a Round2 value",
 "C05": "trusted: outer steps are judged relative to the adjusted base score the library exposes (temporal absent, CDP:ND, TD:ND), which itself is judged against the exact equation",
 "C06": "trusted: negative-equation flag looked up in TLC's MC_V2Neg list; unattained score values cannot be probed",
 "C13": "trusted: float projection; relations are judged on observed scores only (independent of C01-C05 oracles)",
 "C20": "trusted: the unknown value of each metric type is its zero value (as the constants declare)",
}


def main():
    hooks = json.load(open("/verif/MANIFEST.json")).get("hooks")
    claimed = [p for p in ALL if p in checks.CHECKS and p in INFO]
    m = {"version": 1, "setup_cmd": "bin/setup", "hooks": hooks,
         "engines": [{"name": "tlc-spec", "path": "spec/", "serves_properties": claimed,
                      "kind_free_text": "TLA+ specification (BigDec, CvssTables, V3Score, V2Score, ...) + MC_* models + Trace_* trace specs, run with TLC"},
                     {"name": "go-harness", "path": "harness/", "serves_properties": claimed,
                      "kind_free_text": "Go conformance harness built with -tags verif against /repo's working tree; records NDJSON traces"}],
         "checks": [], "not_applicable": [],
         "notes": "bin/check <ID> --tier quick|thorough; exit 2 = infrastructure problem (never a violation). Known findings: known_findings.json."}
    for p in ALL:
        if p in claimed:
            cat, text, ref = INFO[p]
            m["checks"].append({"property_id": p, "quick_cmd": "bin/check %s --tier quick" % p, "thorough_cmd": "bin/check %s --tier thorough" % p,
                                "evidence_file": "evidence/%s.json" % p, "replay_cmd_template": "bin/check %s --replay {path}" % p, "engine": "tlc-spec",
                                "level_claimed": {"category": cat, "text": text, "design_ref": "DESIGN.md section " + ref},
                                "level_note": NOTE[p], "technique": TECH})
        else:
            m["not_applicable"].append({"property_id": p, "reason": "check under construction in this session (DESIGN.md Appendix F); not claimed until its pipeline runs"})
    json.dump(m, open("/verif/MANIFEST.json", "w"), indent=1)
    print("claimed:", claimed)


main()
