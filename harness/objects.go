package main

import (
	"bufio"
	"encoding/json"
	"flag"
	"fmt"
	"hash/fnv"
	"math/rand"
	"os"
	"reflect"
	"runtime"
	"sort"
	"strings"
	"sync/atomic"

	m2 "github.com/goark/go-cvss/v2/metric"
	m3 "github.com/goark/go-cvss/v3/metric"
	"github.com/goark/go-cvss/v3/report"
)

// handle: a variable holding a (possibly nil) pointer of one of the six object types
type handle struct {
	fam string
	lvl byte
	b3  *m3.Base
	t3  *m3.Temporal
	e3  *m3.Environmental
	b2  *m2.Base
	t2  *m2.Temporal
	e2  *m2.Environmental
}

func (h *handle) isNil() bool {
	switch h.fam + string(h.lvl) {
	case "v3B":
		return h.b3 == nil
	case "v3T":
		return h.t3 == nil
	case "v3E":
		return h.e3 == nil
	case "v2B":
		return h.b2 == nil
	case "v2T":
		return h.t2 == nil
	}
	return h.e2 == nil
}

func newHandle(fam string, lvl byte, construct bool) *handle {
	h := &handle{fam: fam, lvl: lvl}
	if !construct {
		return h
	}
	switch fam + string(lvl) {
	case "v3B":
		h.b3 = m3.NewBase()
	case "v3T":
		h.t3 = m3.NewTemporal()
	case "v3E":
		h.e3 = m3.NewEnvironmental()
	case "v2B":
		h.b2 = m2.NewBase()
	case "v2T":
		h.t2 = m2.NewTemporal()
	case "v2E":
		h.e2 = m2.NewEnvironmental()
	}
	return h
}

// decode calls recv.Decode(s) (recv may hold a nil pointer) and returns the result handle
func (h *handle) decode(s string) (*handle, error) {
	r := &handle{fam: h.fam, lvl: h.lvl}
	var err error
	switch h.fam + string(h.lvl) {
	case "v3B":
		r.b3, err = h.b3.Decode(s)
	case "v3T":
		r.t3, err = h.t3.Decode(s)
	case "v3E":
		r.e3, err = h.e3.Decode(s)
	case "v2B":
		r.b2, err = h.b2.Decode(s)
	case "v2T":
		r.t2, err = h.t2.Decode(s)
	case "v2E":
		r.e2, err = h.e2.Decode(s)
	}
	return r, err
}

// view returns the handle obtained through the accessor of level via ('B' or 'T'); same
// handle for via == own level
func (h *handle) view(via byte) *handle {
	if via == h.lvl {
		return h
	}
	r := &handle{fam: h.fam, lvl: via}
	switch h.fam + string(h.lvl) + string(via) {
	case "v3TB":
		r.b3 = h.t3.BaseMetrics()
	case "v3EB":
		r.b3 = h.e3.BaseMetrics()
	case "v3ET":
		r.t3 = h.e3.TemporalMetrics()
	case "v2TB":
		r.b2 = h.t2.BaseMetrics()
	case "v2EB":
		r.b2 = h.e2.BaseMetrics()
	case "v2ET":
		r.t2 = h.e2.TemporalMetrics()
	default:
		return nil
	}
	return r
}

type qres struct {
	Err   bool     `json:"err"`
	Sent  []string `json:"sent"`
	Str   string   `json:"str"`
	Sc    int      `json:"sc"`
	Sev   string   `json:"sev"`
	IsNil bool     `json:"isnil"`
	Panic string   `json:"panic,omitempty"`
}

// query runs one query on the handle (typed nil receivers included)
func (h *handle) query(q string) (r qres) {
	r.Sent = []string{}
	defer func() {
		if p := recover(); p != nil {
			r.Panic = asciiSafe(fmt.Sprint(p))
		}
	}()
	type api interface {
		GetError() error
		Encode() (string, error)
		String() string
		Score() float64
	}
	var a api
	var sev fmt.Stringer
	switch h.fam + string(h.lvl) {
	case "v3B":
		a = h.b3
	case "v3T":
		a = h.t3
	case "v3E":
		a = h.e3
	case "v2B":
		a = h.b2
	case "v2T":
		a = h.t2
	case "v2E":
		a = h.e2
	}
	switch q {
	case "GetError":
		err := a.GetError()
		r.Err, r.Sent = err != nil, sentinelsOf(err)
	case "Encode":
		s, err := a.Encode()
		r.Err, r.Sent, r.Str = err != nil, sentinelsOf(err), asciiSafe(s)
	case "String":
		r.Str = asciiSafe(a.String())
	case "Score":
		r.Sc = tenthOf(a.Score())
	case "Severity":
		switch h.fam + string(h.lvl) {
		case "v3B":
			sev = h.b3.Severity()
		case "v3T":
			sev = h.t3.Severity()
		case "v3E":
			sev = h.e3.Severity()
		case "v2B":
			sev = h.b2.Severity()
		case "v2T":
			sev = h.t2.Severity()
		case "v2E":
			sev = h.e2.Severity()
		}
		r.Sev = sev.String()
	case "BaseMetrics":
		switch h.fam + string(h.lvl) {
		case "v3B":
			r.IsNil = h.b3.BaseMetrics() == nil
		case "v3T":
			r.IsNil = h.t3.BaseMetrics() == nil
		case "v3E":
			r.IsNil = h.e3.BaseMetrics() == nil
		case "v2T":
			r.IsNil = h.t2.BaseMetrics() == nil
		case "v2E":
			r.IsNil = h.e2.BaseMetrics() == nil
		}
	case "TemporalMetrics":
		switch h.fam + string(h.lvl) {
		case "v3E":
			r.IsNil = h.e3.TemporalMetrics() == nil
		case "v2E":
			r.IsNil = h.e2.TemporalMetrics() == nil
		}
	case "IsEmpty":
		// not in C12's list for nil receivers; only asked on non-nil v2 objects
		switch h.fam + string(h.lvl) {
		case "v2T":
			r.Err = h.t2.IsEmpty()
		case "v2E":
			r.Err = h.e2.IsEmpty()
		}
	}
	return
}

func queriesFor(h *handle) []string {
	qs := []string{"GetError", "Encode", "String", "Score", "Severity"}
	if !(h.fam == "v2" && h.lvl == 'B') {
		qs = append(qs, "BaseMetrics")
	}
	if h.lvl == 'E' {
		qs = append(qs, "TemporalMetrics")
	}
	if h.fam == "v2" && h.lvl != 'B' && !h.isNil() {
		qs = append(qs, "IsEmpty")
	}
	return qs
}

// snapshot: everything observable about the object, read without calling its methods:
// exported fields through the harness constant tables, unexported names maps by reflection
type snap struct {
	Nil   bool   `json:"nil"`
	Fam   string `json:"fam"`
	Lvl   string `json:"lvl"`
	Ver   string `json:"ver"`
	F     string `json:"f"`     // value codes in canonical order, comma separated ("?" unknown, "#n" no constant)
	Names string `json:"names"` // recorded metric names, sorted, comma separated
}

// namesOf collects the metric names an object has recorded as decoded from its unexported bookkeeping (a
// map[string]bool per level in the code as it stands).  It returns false when a level keeps that bookkeeping in
// another shape (a refactoring may do so freely): the snapshot then says "~" (not readable) and the specifications
// fall back to what the exported fields tell.
func namesOf(v reflect.Value, out map[string]bool) (readable bool) {
	if v.Kind() == reflect.Ptr {
		if v.IsNil() {
			return true
		}
		v = v.Elem()
	}
	if v.Kind() != reflect.Struct {
		return false
	}
	t := v.Type()
	readable = true
	found := false
	for i := 0; i < t.NumField(); i++ {
		f := t.Field(i)
		if f.Anonymous {
			if !namesOf(v.Field(i), out) {
				readable = false
			}
			continue
		}
		if f.IsExported() {
			continue
		}
		// the bookkeeping field: an unexported map from string to bool, whatever its name
		m := v.Field(i)
		if m.Kind() == reflect.Map && m.Type().Key().Kind() == reflect.String && m.Type().Elem().Kind() == reflect.Bool {
			if found {
				return false // two candidates: cannot tell which one it is
			}
			found = true
			for _, k := range m.MapKeys() {
				if m.MapIndex(k).Bool() {
					out[k.String()] = true
				}
			}
		}
	}
	return readable && found
}

func (h *handle) snapshot() snap {
	s := snap{Fam: h.fam, Lvl: string(h.lvl), Ver: "-"}
	if h.isNil() {
		s.Nil = true
		return s
	}
	upto := levelUpto[h.fam][h.lvl]
	codes := make([]string, 0, upto)
	names := map[string]bool{}
	var obj any
	switch h.fam + string(h.lvl) {
	case "v3B":
		obj = h.b3
	case "v3T":
		obj = h.t3
	case "v3E":
		obj = h.e3
	case "v2B":
		obj = h.b2
	case "v2T":
		obj = h.t2
	case "v2E":
		obj = h.e2
	}
	// a half-built object may have a nil embedded pointer: reading fields then panics; report it
	defer func() {
		if p := recover(); p != nil {
			s.F = "panic while reading fields: " + asciiSafe(fmt.Sprint(p))
		}
	}()
	for i := 0; i < upto; i++ {
		var c int
		switch h.fam + string(h.lvl) {
		case "v3B":
			c = v3GetBaseField(h.b3, i)
		case "v3T":
			c = v3GetTempField(h.t3, i)
		case "v3E":
			c = v3GetEnvField(h.e3, i)
		case "v2B":
			c = v2GetBaseField(h.b2, i)
		case "v2T":
			c = v2GetTempField(h.t2, i)
		case "v2E":
			c = v2GetEnvField(h.e2, i)
		}
		codes = append(codes, symOf(h.fam, i, c))
	}
	if h.fam == "v3" {
		var ver m3.Version
		switch h.lvl {
		case 'B':
			ver = h.b3.Ver
		case 'T':
			ver = h.t3.Ver
		default:
			ver = h.e3.Ver
		}
		s.Ver = v3VerLabel(ver)
	}
	readable := namesOf(reflect.ValueOf(obj), names)
	nl := make([]string, 0, len(names))
	for n := range names {
		nl = append(nl, n)
	}
	sort.Strings(nl)
	s.F, s.Names = strings.Join(codes, ","), strings.Join(nl, ",")
	if !readable {
		s.Names = "~"
	}
	return s
}

func (h *handle) setField(name, code string) bool {
	if h.isNil() {
		return false
	}
	if name == "Ver" {
		v := m3.VUnknown
		if code == "3.0" {
			v = m3.V3_0
		} else if code == "3.1" {
			v = m3.V3_1
		}
		switch h.lvl {
		case 'B':
			h.b3.Ver = v
		case 'T':
			h.t3.Ver = v
		default:
			h.e3.Ver = v
		}
		return true
	}
	defs := defsOf(h.fam)
	for i, d := range defs {
		if d.Name != name || i >= levelUpto[h.fam][h.lvl] {
			continue
		}
		c := 0
		for _, cc := range d.Codes {
			if cc.Code == code {
				c = cc.C
			}
		}
		if h.fam == "v3" {
			// write through a temporary Environmental shell sharing the same sub-objects
			sh := &m3.Environmental{}
			switch h.lvl {
			case 'B':
				sh.Temporal = &m3.Temporal{Base: h.b3}
			case 'T':
				sh.Temporal = h.t3
			default:
				sh = h.e3
			}
			v3SetField(sh, i, c)
		} else {
			sh := &m2.Environmental{}
			switch h.lvl {
			case 'B':
				sh.Temporal = &m2.Temporal{Base: h.b2}
			case 'T':
				sh.Temporal = h.t2
			default:
				sh = h.e2
			}
			v2SetField(sh, i, c)
		}
		return true
	}
	return false
}

// digest of the package-level tables as observable through the public API (C15: queries
// must not write them): all Get*/String/Value results of the C20 probe, hashed
func tablesDigest() string {
	h := fnv.New64a()
	for _, mm := range metaMetrics {
		for c := -1; c <= 7; c++ {
			fmt.Fprintf(h, "%s|%d|%s|%t|", mm.Name, c, mm.Str(c), mm.Pred(c))
			for _, w := range mm.Weights(c) {
				fmt.Fprintf(h, "%v;", w.W)
			}
		}
		for _, s := range []string{"N", "L", "H", "X", "ND", "P", "C", "U", "A", "R", "M"} {
			fmt.Fprintf(h, "%d,", mm.Get(s))
		}
	}
	for i, nm := range nameMetas {
		for c := 0; c <= 5; c++ {
			fmt.Fprintf(h, "%d|%s|%s|", i, nm.ValueOf(c, langTags["en"]), nm.ValueOf(c, langTags["ja"]))
		}
	}
	return fmt.Sprintf("%016x", h.Sum64())
}

type stepEvent struct {
	K      string          `json:"k"`
	H      int             `json:"h"`
	I      int             `json:"i"`
	Op     map[string]any  `json:"op"`
	Panic  string          `json:"panic"`
	Res    []qres          `json:"res"`  // one per repetition of a query; one element otherwise
	Ok     bool            `json:"ok"`   // decode: err == nil
	Sent   []string        `json:"sent"` // decode
	Snaps  map[string]snap `json:"snaps"`
	Tables string          `json:"tables"`
	Twin   *qres           `json:"twin,omitempty"`
}

type prefix struct {
	Fam  string           `json:"fam"`
	Lvl  string           `json:"lvl"`
	Hist []map[string]any `json:"hist"`
}

// applyStateOp performs one state-changing operation of a history (new, nil, decode, decode2, set, setgroup) on vars
// and returns the outcome of a decode as text ("" otherwise); panics are the caller's business.
func applyStateOp(p prefix, vars map[string]*handle, op map[string]any) string {
	lvl := p.Lvl[0]
	switch op["op"] {
	case "new":
		vars["r"] = newHandle(p.Fam, lvl, true)
	case "nil":
		vars["r"] = newHandle(p.Fam, lvl, false)
	case "decode", "decode2":
		x, err := vars["r"].decode(unescape(op["s"].(string)))
		if op["op"] == "decode" {
			vars["x"] = x
		} else {
			vars["y"] = x
		}
		return fmt.Sprintf("ok=%v sent=%v", err == nil, sentinelsOf(err))
	case "set":
		tgt := vars["x"]
		if tgt == nil {
			tgt = vars["r"]
		}
		tgt.setField(op["n"].(string), op["c"].(string))
	case "setgroup":
		tgt := vars["x"]
		if tgt == nil {
			tgt = vars["r"]
		}
		rg := map[string][2]int{"B": {0, 8}, "T": {8, 11}, "E": {11, 22}}
		if p.Fam == "v2" {
			rg = map[string][2]int{"B": {0, 6}, "T": {6, 9}, "E": {9, 14}}
		}
		for i := rg[op["g"].(string)][0]; i < rg[op["g"].(string)][1]; i++ {
			d := defsOf(p.Fam)[i]
			code := "?"
			if op["c"].(string) != "?" {
				code = d.Codes[0].Code
			}
			tgt.setField(d.Name, code)
		}
	}
	return ""
}

// allCalls lists every (variable, accessor, query) of the current variables in a canonical order.
type objCall struct {
	v   string
	via byte
	q   string
}

func allCalls(vars map[string]*handle) []objCall {
	var calls []objCall
	for n, h := range vars {
		vias := []byte{h.lvl}
		if h.lvl != 'B' {
			vias = append(vias, 'B')
		}
		if h.lvl == 'E' {
			vias = append(vias, 'T')
		}
		for _, via := range vias {
			vh := func() (r *handle) {
				defer func() { recover() }()
				return h.view(via)
			}()
			if vh == nil {
				continue
			}
			for _, q := range queriesFor(vh) {
				calls = append(calls, objCall{n, via, q})
			}
		}
	}
	sort.Slice(calls, func(i, j int) bool {
		return calls[i].v+string(calls[i].via)+calls[i].q < calls[j].v+string(calls[j].via)+calls[j].q
	})
	return calls
}

func doCall(vars map[string]*handle, c objCall) (out string) {
	defer func() {
		if r := recover(); r != nil {
			out = "panic " + asciiSafe(fmt.Sprint(r))
		}
	}()
	r := vars[c.v].view(c.via).query(c.q)
	return fmt.Sprintf("%s.%c.%s -> err=%v sent=%v str=%s sc=%d sev=%s panic=%s", c.v, c.via, c.q, r.Err, r.Sent, r.Str, r.Sc, r.Sev, r.Panic)
}

// replayHistory runs the state-changing operations of a history on fresh variables; with inject > 0 it asks that many
// seeded queries of the live variables BEFORE every operation (also of the still undecoded receiver).  It returns the
// decode outcomes, the final snapshots and the results of one canonical battery: queries being read-only, the two
// runs (with and without injected queries) must return the same list.
func replayHistory(p prefix, rng *rand.Rand, inject int) []string {
	vars := map[string]*handle{}
	var out []string
	for _, op := range p.Hist {
		if inject > 0 && len(vars) > 0 {
			calls := allCalls(vars)
			for k := 0; k < inject && len(calls) > 0; k++ {
				doCall(vars, calls[rng.Intn(len(calls))])
			}
			if p.Fam == "v3" && rng.Intn(2) == 0 {
				for _, h := range vars {
					if !h.isNil() {
						func() {
							defer func() { recover() }()
							switch h.lvl {
							case 'B':
								report.NewBase(h.b3)
							case 'T':
								report.NewTemporal(h.t3)
							default:
								report.NewEnvironmental(h.e3)
							}
						}()
					}
				}
			}
		}
		func() {
			defer func() {
				if r := recover(); r != nil {
					out = append(out, "panic in "+fmt.Sprint(op["op"]))
				}
			}()
			if o := applyStateOp(p, vars, op); o != "" {
				out = append(out, fmt.Sprintf("%v '%v' -> %s", op["op"], op["s"], o))
			}
		}()
	}
	names := make([]string, 0, len(vars))
	for n := range vars {
		names = append(names, n)
	}
	sort.Strings(names)
	for _, n := range names {
		sn := vars[n].snapshot()
		out = append(out, fmt.Sprintf("snapshot %s: nil=%v ver=%s f=%s names=%s", n, sn.Nil, sn.Ver, sn.F, sn.Names))
	}
	for _, c := range allCalls(vars) {
		out = append(out, doCall(vars, c))
	}
	return out
}

type injectEvent struct {
	K    string `json:"k"`
	H    int    `json:"h"`
	I    int    `json:"i"`
	N    int    `json:"items"` // items compared
	Same bool   `json:"same"`  // the run with injected queries returned what the plain run returned
	A    string `json:"a"`     // first differing item, plain run
	B    string `json:"b"`     // first differing item, run with injected queries
}

func runPrefix(hid int, p prefix, rng *rand.Rand, rec *Recorder, reps int) {
	vars := map[string]*handle{}
	step := 0
	emit := func(op map[string]any, ev *stepEvent) {
		ev.K, ev.H, ev.I, ev.Op = "step", hid, step, op
		step++
		ev.Snaps = map[string]snap{}
		for n, h := range vars {
			ev.Snaps[n] = h.snapshot()
		}
		ev.Tables = tablesDigest()
		if ev.Res == nil {
			ev.Res = []qres{}
		}
		if ev.Sent == nil {
			ev.Sent = []string{}
		}
		rec.Add(evBody(ev), fmt.Sprintf("history %d step %d", hid, ev.I))
	}
	lvl := p.Lvl[0]
	for opIdx, op := range p.Hist {
		ev := &stepEvent{}
		func() {
			defer func() {
				if r := recover(); r != nil {
					ev.Panic = asciiSafe(fmt.Sprint(r))
				}
			}()
			switch op["op"] {
			case "new":
				vars["r"] = newHandle(p.Fam, lvl, true)
			case "nil":
				vars["r"] = newHandle(p.Fam, lvl, false)
			case "decode":
				x, err := vars["r"].decode(unescape(op["s"].(string)))
				vars["x"] = x
				ev.Ok, ev.Sent = err == nil, sentinelsOf(err)
			case "decode2":
				y, err := vars["r"].decode(unescape(op["s"].(string)))
				vars["y"] = y
				ev.Ok, ev.Sent = err == nil, sentinelsOf(err)
			case "set":
				tgt := vars["x"]
				if tgt == nil {
					tgt = vars["r"]
				}
				tgt.setField(op["n"].(string), op["c"].(string))
			case "setgroup":
				tgt := vars["x"]
				if tgt == nil {
					tgt = vars["r"]
				}
				lo, hi := map[string][2]int{"B": {0, 8}, "T": {8, 11}, "E": {11, 22}}[op["g"].(string)][0], map[string][2]int{"B": {0, 8}, "T": {8, 11}, "E": {11, 22}}[op["g"].(string)][1]
				if p.Fam == "v2" {
					lo, hi = map[string][2]int{"B": {0, 6}, "T": {6, 9}, "E": {9, 14}}[op["g"].(string)][0], map[string][2]int{"B": {0, 6}, "T": {6, 9}, "E": {9, 14}}[op["g"].(string)][1]
				}
				for i := lo; i < hi; i++ {
					d := defsOf(p.Fam)[i]
					code := "?"
					if op["c"].(string) != "?" {
						code = d.Codes[0].Code
					}
					tgt.setField(d.Name, code)
				}
			}
		}()
		emit(op, ev)
		// prime whatever a query might remember: the score, severity and encoding queries are asked once right after the
		// first Decode when further operations follow (a value kept from before a later field reset or failed decode
		// would then be served by the closing battery)
		if op["op"] == "decode" && opIdx < len(p.Hist)-1 {
			for _, c := range allCalls(vars) {
				if c.q != "Score" && c.q != "Severity" && c.q != "Encode" {
					continue
				}
				qev := &stepEvent{}
				func() {
					defer func() {
						if r := recover(); r != nil {
							qev.Panic = asciiSafe(fmt.Sprint(r))
						}
					}()
					qev.Res = append(qev.Res, vars[c.v].view(c.via).query(c.q))
				}()
				emit(map[string]any{"op": "query", "x": c.v, "via": string(c.via), "q": c.q}, qev)
			}
		}
	}
	// the battery: every query on every variable through every accessor, several times, seeded order
	type call struct {
		v   string
		via byte
		q   string
	}
	var calls []call
	for n, h := range vars {
		vias := []byte{h.lvl}
		if h.lvl != 'B' {
			vias = append(vias, 'B')
		}
		if h.lvl == 'E' {
			vias = append(vias, 'T')
		}
		for _, via := range vias {
			vh := func() (r *handle) {
				defer func() { recover() }()
				return h.view(via)
			}()
			if vh == nil {
				continue
			}
			for _, q := range queriesFor(vh) {
				calls = append(calls, call{n, via, q})
			}
		}
	}
	sort.Slice(calls, func(i, j int) bool {
		return calls[i].v+string(calls[i].via)+calls[i].q < calls[j].v+string(calls[j].via)+calls[j].q
	})
	rng.Shuffle(len(calls), func(i, j int) { calls[i], calls[j] = calls[j], calls[i] })
	// every query occurs a second time, at another point of the history
	second := append([]call(nil), calls...)
	rng.Shuffle(len(second), func(i, j int) { second[i], second[j] = second[j], second[i] })
	calls = append(calls, second...)
	for _, c := range calls {
		ev := &stepEvent{}
		h := vars[c.v]
		func() {
			defer func() {
				if r := recover(); r != nil {
					ev.Panic = asciiSafe(fmt.Sprint(r))
				}
			}()
			vh := h.view(c.via)
			for k := 0; k < reps; k++ {
				ev.Res = append(ev.Res, vh.query(c.q))
			}
			// the same query on a freshly decoded twin of the object's encoding
			if enc := vh.query("Encode"); !enc.Err && enc.Panic == "" {
				tw, err := newHandle(vh.fam, vh.lvl, true).decode(unescape(enc.Str))
				if err == nil {
					t := tw.query(c.q)
					ev.Twin = &t
				}
			}
		}()
		emit(map[string]any{"op": "query", "x": c.v, "via": string(c.via), "q": c.q}, ev)
	}
	// report construction is a query too (v3): it must not modify the object
	if p.Fam == "v3" {
		vnames := make([]string, 0, len(vars))
		for n := range vars {
			vnames = append(vnames, n)
		}
		sort.Strings(vnames)
		for _, n := range vnames {
			h := vars[n]
			if h.isNil() {
				continue // report.New* on nil metrics is outside the property's wording
			}
			ev := &stepEvent{}
			func() {
				defer func() {
					if r := recover(); r != nil {
						ev.Panic = asciiSafe(fmt.Sprint(r))
					}
				}()
				var out string
				switch h.lvl {
				case 'B':
					out = report.NewBase(h.b3).BaseScore
				case 'T':
					out = report.NewTemporal(h.t3).TemporalScore
				default:
					out = report.NewEnvironmental(h.e3).EnvironmentalScore
				}
				ev.Res = []qres{{Str: out, Sent: []string{}}}
			}()
			emit(map[string]any{"op": "query", "x": n, "via": string(h.lvl), "q": "Report"}, ev)
		}
	}
	// queries interleaved with the state-changing operations (also before the first Decode, on the untouched
	// receiver): decode outcomes, final snapshots and a canonical battery must equal those of the plain run
	plain := replayHistory(p, rng, 0)
	for k, inject := range []int{1, 4} {
		inj := replayHistory(p, rng, inject)
		ev := injectEvent{K: "inject", H: hid, I: 100000 + k, N: len(plain), Same: true}
		for i := 0; i < len(plain) || i < len(inj); i++ {
			a, b := "(missing)", "(missing)"
			if i < len(plain) {
				a = plain[i]
			}
			if i < len(inj) {
				b = inj[i]
			}
			if a != b {
				ev.Same, ev.A, ev.B = false, asciiSafe(a), asciiSafe(b)
				break
			}
		}
		rec.Add(evBody(ev), fmt.Sprintf("history %d with %d injected queries per step", hid, inject))
	}
}

func cmdObjects(args []string) {
	fs := flag.NewFlagSet("objects", flag.ExitOnError)
	commonFlags(fs)
	in := fs.String("in", "", "NDJSON prefixes from MC_Objects")
	reps := fs.Int("reps", 2, "repetitions of every query")
	fs.Parse(args)
	var ps []prefix
	f, err := os.Open(*in)
	if err != nil {
		die("%v", err)
	}
	sc := bufio.NewScanner(f)
	sc.Buffer(make([]byte, 1<<20), 1<<26)
	for sc.Scan() {
		var p prefix
		if json.Unmarshal(sc.Bytes(), &p) == nil && len(p.Hist) > 0 {
			ps = append(ps, p)
		}
	}
	f.Close()
	workers := runtime.NumCPU()
	recs := make([]*Recorder, workers)
	for i := range recs {
		recs[i] = NewRecorder()
	}
	parallelFor(len(ps), workers, func(w, i int) {
		runPrefix(i, ps[i], newRand(9000+i), recs[w], *reps)
	})
	all := NewRecorder()
	for _, r := range recs {
		all.Merge(r)
	}
	s := flushByHistory(all, flagOut, "objects", flagChunks)
	s.Extra = map[string]any{"histories": len(ps)}
	printSummary(s)
}

// flushByHistory keeps the steps of one history together and in order (chunk = h mod chunks)
func flushByHistory(r *Recorder, dir, prefix string, chunks int) *Summary {
	type row struct {
		h, i int
		line string
	}
	rows := make([]row, 0, len(r.m))
	for k, e := range r.m {
		var hd struct {
			H int `json:"h"`
			I int `json:"i"`
		}
		json.Unmarshal([]byte("{"+k+"}"), &hd)
		rows = append(rows, row{hd.H, hd.I, "{" + k + `,"n":` + fmt.Sprint(e.n) + `,"src":` + jstr(asciiSafe(e.src)) + "}"})
	}
	sort.Slice(rows, func(a, b int) bool {
		if rows[a].h != rows[b].h {
			return rows[a].h < rows[b].h
		}
		return rows[a].i < rows[b].i
	})
	s := &Summary{Observations: r.total, Distinct: len(rows)}
	ws := make([]*bufio.Writer, chunks)
	fsx := make([]*os.File, chunks)
	lens := make([]int, chunks)
	for i := range ws {
		p := fmt.Sprintf("%s/%s.%d.ndjson", dir, prefix, i)
		f, err := os.Create(p)
		if err != nil {
			die("%v", err)
		}
		fsx[i], ws[i] = f, bufio.NewWriterSize(f, 1<<20)
		s.Chunks = append(s.Chunks, p)
	}
	for n, rw := range rows {
		c := rw.h % chunks
		ws[c].WriteString(rw.line)
		ws[c].WriteByte('\n')
		lens[c]++
		if n%(len(rows)/6+1) == 0 {
			s.Samples = append(s.Samples, json.RawMessage(rw.line))
		}
	}
	for i := range ws {
		ws[i].Flush()
		fsx[i].Close()
	}
	s.ChunkLens = lens
	return s
}

func init() { register("objects", cmdObjects) }

// ---------------------------------------------------------------------------
// orders (C15): one list of vectors processed in two different orders within one process,
// with report construction interleaved; per-vector results must not depend on the order
// ---------------------------------------------------------------------------
func cmdOrders(args []string) {
	fs := flag.NewFlagSet("orders", flag.ExitOnError)
	commonFlags(fs)
	n := fs.Int("n", 3000, "vectors per family (near-duplicates are added)")
	ord := fs.String("order", "fwd", "fwd|rev|shuf: processing order of this process")
	fs.Parse(args)
	rng := newRand(1200)
	type item struct {
		fam string
		lvl byte
		s   string
	}
	var items []item
	lvls := []byte{'B', 'T', 'E'}
	for i := 0; i < *n; i++ {
		lvl := lvls[rng.Intn(3)]
		a, b := randValidV3(rng, lvl)
		items = append(items, item{"v3", lvl, a}, item{"v3", lvl, b})
		// near-duplicates that a careless cache key would confuse: other version, same tokens
		if strings.HasPrefix(a, "CVSS:3.0") {
			items = append(items, item{"v3", lvl, "CVSS:3.1" + a[8:]})
		} else {
			items = append(items, item{"v3", lvl, "CVSS:3.0" + a[8:]})
		}
		// same string at another decoder level
		items = append(items, item{"v3", 'E', a})
		// one token changed
		items = append(items, item{"v3", lvl, randEdit(rng, a)})
		// the colon of one token moved one place to the left ("AC:L" -> "A:CL"): a parser memo keyed by
		// name+value without a separator would accept it after the original has been seen
		items = append(items, item{"v3", lvl, colonShift(rng, a)}, item{"v2", 'E', colonShift(rng, randValidV2(rng, 'E'))})
		s2 := randValidV2(rng, lvl)
		items = append(items, item{"v2", lvl, s2}, item{"v2", 'E', s2}, item{"v2", lvl, randEdit(rng, s2)})
	}
	// one processing order per PROCESS (a cache that is never evicted would make later passes
	// of the same process agree with the first one): -order selects it, the orchestrator runs
	// the command once per order in fresh processes and joins the results per vector
	order := make([]int, len(items))
	for i := range order {
		order[i] = i
	}
	switch *ord {
	case "rev":
		for i := range order {
			order[i] = len(items) - 1 - i
		}
	case "shuf":
		rng.Shuffle(len(order), func(i, j int) { order[i], order[j] = order[j], order[i] })
	}
	rec := NewRecorder()
	type oe struct {
		K   string    `json:"k"`
		Idx int       `json:"idx"`
		Fam string    `json:"fam"`
		Lvl string    `json:"lvl"`
		S   string    `json:"s"`
		R   *decEvent `json:"r"`
	}
	for k, idx := range order {
		it := items[idx]
		ev := decodeFull(it.fam, it.lvl, it.s, true)
		if it.fam == "v3" && ev.Ok {
			// the report built without any option (the documented default) must not depend on which languages
			// earlier reports of this process were asked for
			ev.Rep0 = defaultReportDigest(it.lvl, it.s)
			if k%3 == 0 {
				buildRepEvent(it.lvl, []string{"ja", "en", "fr", "ja-JP"}[(k/3)%4], it.s) // interleave report construction
			}
		}
		rec.Add(evBody(oe{"ord1", idx, it.fam, string(it.lvl), asciiSafe(it.s), ev}), "order "+*ord)
	}
	s := rec.Flush(flagOut, "orders-"+*ord, 1)
	s.Extra = map[string]any{"vectors": len(items), "order": *ord}
	printSummary(s)
}

// defaultReportDigest: a few fields of report.New<Level>(metrics) with no option given
func defaultReportDigest(lvl byte, s string) (out string) {
	defer func() {
		if r := recover(); r != nil {
			out = "panic " + asciiSafe(fmt.Sprint(r))
		}
	}()
	o, err := v3Decode(lvl, s)
	if err != nil {
		return "decode error"
	}
	var b *report.BaseReport
	switch lvl {
	case 'B':
		b = report.NewBase(o.b)
	case 'T':
		r := report.NewTemporal(o.t)
		b = r.BaseReport
		out = r.EName + "=" + r.EValue + ";" + r.SeverityName + "=" + r.SeverityValue + ";"
	default:
		r := report.NewEnvironmental(o.e)
		b = r.BaseReport
		out = r.CRName + "=" + r.CRValue + ";" + r.SeverityName + "=" + r.SeverityValue + ";"
	}
	return asciiSafe(out + b.AVName + "=" + b.AVValue + ";" + b.BaseMetrics + ";" + b.SeverityName + "=" + b.SeverityValue + ";" + b.BaseScore)
}

func colonShift(rng *rand.Rand, s string) string {
	p := strings.Split(s, "/")
	for tries := 0; tries < 8; tries++ {
		i := rng.Intn(len(p))
		k := strings.Index(p[i], ":")
		if k >= 2 && !strings.HasPrefix(p[i], "CVSS") {
			p[i] = p[i][:k-1] + ":" + p[i][k-1:k] + p[i][k+1:]
			break
		}
	}
	return strings.Join(p, "/")
}

func init() { register("orders", cmdOrders) }

// ---------------------------------------------------------------------------
// repeat (C15): every v2 base/temporal vector, every v3 base vector with seeded optional metrics, and seeded v2
// environmental vectors: each query asked several times of one object and of a second, freshly decoded one.
// "Repeating any of these operations ... returns identical results" -- also where the exact value is a rounding tie.
// ---------------------------------------------------------------------------
func cmdRepeat(args []string) {
	fs := flag.NewFlagSet("repeat", flag.ExitOnError)
	commonFlags(fs)
	reps := fs.Int("reps", 6, "repetitions of every query")
	fs.Parse(args)
	type rev struct {
		K       string   `json:"k"`
		Fam     string   `json:"fam"`
		Same    bool     `json:"same"`
		Vectors int      `json:"vectors"`
		S       string   `json:"s"`
		Vals    []string `json:"vals"`
	}
	workers := runtime.NumCPU()
	recs := make([]*Recorder, workers)
	for i := range recs {
		recs[i] = NewRecorder()
	}
	var total int64
	probe := func(rec *Recorder, fam string, lvl byte, s string) {
		atomic.AddInt64(&total, 1)
		seen := map[string]bool{}
		var vals []string
		for round := 0; round < 2; round++ {
			h, err := newHandle(fam, lvl, true).decode(s)
			if err != nil {
				return
			}
			for k := 0; k < *reps; k++ {
				sc, sv, en := h.query("Score"), h.query("Severity"), h.query("Encode")
				v := fmt.Sprintf("score=%d severity=%s encoding=%s", sc.Sc, sv.Sev, en.Str)
				for _, via := range []byte{'B', 'T'} {
					if vh := h.view(via); vh != nil && via != lvl && !(via == 'T' && lvl == 'B') {
						r := vh.query("Score")
						v += fmt.Sprintf(" %c.score=%d", via, r.Sc)
					}
				}
				if !seen[v] {
					seen[v] = true
					vals = append(vals, v)
				}
			}
		}
		if len(vals) > 1 {
			rec.Add(evBody(rev{K: "repeat", Fam: fam, Same: false, S: asciiSafe(s), Vals: vals}), "repeated queries on "+s)
		}
	}
	nb2, nt2 := v2Count(0, 6), v2Count(6, 9)
	parallelFor(nb2, workers, func(w, bi int) {
		rng := newRand(6100 + bi)
		var v v2Vec
		v2SetFromIndex(&v, 0, 6, bi)
		for ti := 0; ti < nt2; ti++ {
			v2SetFromIndex(&v, 6, 9, ti)
			probe(recs[w], "v2", 'T', v2String(&v, true, false))
			if ti%5 == bi%5 {
				for i := 9; i < v2N; i++ {
					v[i] = uint8(rng.Intn(len(v2Defs[i].Codes)))
				}
				probe(recs[w], "v2", 'E', v2String(&v, true, true))
			}
		}
	})
	nb3 := v3BaseCount()
	parallelFor(nb3*2, workers, func(w, i int) {
		rng := newRand(6200 + i)
		var v v3Vec
		v3SetFromIndex(&v, 0, v3NBase, i/2)
		ver := v3Versions[i%2].Label
		for k := 0; k < 3; k++ {
			randHigher(rng, &v, 8, 22)
			probe(recs[w], "v3", 'E', v3Join(ver, v3Tokens(&v, 22, xMask(&v, 8, 22))))
		}
	})
	all := NewRecorder()
	for _, r := range recs {
		all.Merge(r)
	}
	all.Add(evBody(rev{K: "repeat", Fam: "all", Same: true, Vectors: int(total), Vals: []string{}}), "vectors whose repeated queries all agreed")
	s := all.Flush(flagOut, "repeat", 1)
	s.Extra = map[string]any{"vectors_probed": total, "repetitions": *reps * 2}
	printSummary(s)
}

func init() { register("repeat", cmdRepeat) }
