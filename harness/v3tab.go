package main

// Harness-side binding between the specification's symbolic value codes and the
// library's exported constants (by identifier, never through String()/Get*()).
// The name/code lists are cross-checked against the TLC-emitted CvssTables
// (gen/tables.json) by the `selfcheck` command.

import (
	m3 "github.com/goark/go-cvss/v3/metric"
)

type codeConst struct {
	Code string
	C    int
}

type metricDef struct {
	Name  string
	Codes []codeConst
}

// canonical order: base(8) temporal(3) environmental(11)
var v3Defs = []metricDef{
	{"AV", []codeConst{{"N", int(m3.AttackVectorNetwork)}, {"A", int(m3.AttackVectorAdjacent)}, {"L", int(m3.AttackVectorLocal)}, {"P", int(m3.AttackVectorPhysical)}}},
	{"AC", []codeConst{{"L", int(m3.AttackComplexityLow)}, {"H", int(m3.AttackComplexityHigh)}}},
	{"PR", []codeConst{{"N", int(m3.PrivilegesRequiredNone)}, {"L", int(m3.PrivilegesRequiredLow)}, {"H", int(m3.PrivilegesRequiredHigh)}}},
	{"UI", []codeConst{{"N", int(m3.UserInteractionNone)}, {"R", int(m3.UserInteractionRequired)}}},
	{"S", []codeConst{{"U", int(m3.ScopeUnchanged)}, {"C", int(m3.ScopeChanged)}}},
	{"C", []codeConst{{"H", int(m3.ConfidentialityImpactHigh)}, {"L", int(m3.ConfidentialityImpactLow)}, {"N", int(m3.ConfidentialityImpactNone)}}},
	{"I", []codeConst{{"H", int(m3.IntegrityImpactHigh)}, {"L", int(m3.IntegrityImpactLow)}, {"N", int(m3.IntegrityImpactNone)}}},
	{"A", []codeConst{{"H", int(m3.AvailabilityImpactHigh)}, {"L", int(m3.AvailabilityImpactLow)}, {"N", int(m3.AvailabilityImpactNone)}}},
	{"E", []codeConst{{"X", int(m3.ExploitabilityNotDefined)}, {"H", int(m3.ExploitabilityHigh)}, {"F", int(m3.ExploitabilityFunctional)}, {"P", int(m3.ExploitabilityProofOfConcept)}, {"U", int(m3.ExploitabilityUnproven)}}},
	{"RL", []codeConst{{"X", int(m3.RemediationLevelNotDefined)}, {"U", int(m3.RemediationLevelUnavailable)}, {"W", int(m3.RemediationLevelWorkaround)}, {"T", int(m3.RemediationLevelTemporaryFix)}, {"O", int(m3.RemediationLevelOfficialFix)}}},
	{"RC", []codeConst{{"X", int(m3.ReportConfidenceNotDefined)}, {"C", int(m3.ReportConfidenceConfirmed)}, {"R", int(m3.ReportConfidenceReasonable)}, {"U", int(m3.ReportConfidenceUnknown)}}},
	{"CR", []codeConst{{"X", int(m3.ConfidentialityRequirementNotDefined)}, {"H", int(m3.ConfidentialityRequirementHigh)}, {"M", int(m3.ConfidentialityRequirementMedium)}, {"L", int(m3.ConfidentialityRequirementLow)}}},
	{"IR", []codeConst{{"X", int(m3.IntegrityRequirementNotDefined)}, {"H", int(m3.IntegrityRequirementHigh)}, {"M", int(m3.IntegrityRequirementMedium)}, {"L", int(m3.IntegrityRequirementLow)}}},
	{"AR", []codeConst{{"X", int(m3.AvailabilityRequirementNotDefined)}, {"H", int(m3.AvailabilityRequirementHigh)}, {"M", int(m3.AvailabilityRequirementMedium)}, {"L", int(m3.AvailabilityRequirementLow)}}},
	{"MAV", []codeConst{{"X", int(m3.ModifiedAttackVectorNotDefined)}, {"N", int(m3.ModifiedAttackVectorNetwork)}, {"A", int(m3.ModifiedAttackVectorAdjacent)}, {"L", int(m3.ModifiedAttackVectorLocal)}, {"P", int(m3.ModifiedAttackVectorPhysical)}}},
	{"MAC", []codeConst{{"X", int(m3.ModifiedAttackComplexityNotDefined)}, {"L", int(m3.ModifiedAttackComplexityLow)}, {"H", int(m3.ModifiedAttackComplexityHigh)}}},
	{"MPR", []codeConst{{"X", int(m3.ModifiedPrivilegesRequiredNotDefined)}, {"N", int(m3.ModifiedPrivilegesRequiredNone)}, {"L", int(m3.ModifiedPrivilegesRequiredLow)}, {"H", int(m3.ModifiedPrivilegesRequiredHigh)}}},
	{"MUI", []codeConst{{"X", int(m3.ModifiedUserInteractionNotDefined)}, {"N", int(m3.ModifiedUserInteractionNone)}, {"R", int(m3.ModifiedUserInteractionRequired)}}},
	{"MS", []codeConst{{"X", int(m3.ModifiedScopeNotDefined)}, {"U", int(m3.ModifiedScopeUnchanged)}, {"C", int(m3.ModifiedScopeChanged)}}},
	{"MC", []codeConst{{"X", int(m3.ModifiedConfidentialityImpactNotDefined)}, {"H", int(m3.ModifiedConfidentialityImpactHigh)}, {"L", int(m3.ModifiedConfidentialityImpactLow)}, {"N", int(m3.ModifiedConfidentialityImpactNone)}}},
	{"MI", []codeConst{{"X", int(m3.ModifiedIntegrityImpactNotDefined)}, {"H", int(m3.ModifiedIntegrityImpactHigh)}, {"L", int(m3.ModifiedIntegrityImpactLow)}, {"N", int(m3.ModifiedIntegrityImpactNone)}}},
	{"MA", []codeConst{{"X", int(m3.ModifiedAvailabilityImpactNotDefined)}, {"H", int(m3.ModifiedAvailabilityImpactHigh)}, {"L", int(m3.ModifiedAvailabilityImpactLow)}, {"N", int(m3.ModifiedAvailabilityImpactNone)}}},
}

const (
	v3NBase = 8
	v3NTemp = 3
	v3NEnv  = 11
	v3N     = 22
)

var v3Versions = []struct {
	Label string
	C     m3.Version
}{{"3.0", m3.V3_0}, {"3.1", m3.V3_1}}

func v3VerLabel(v m3.Version) string {
	switch v {
	case m3.V3_0:
		return "3.0"
	case m3.V3_1:
		return "3.1"
	}
	return "?"
}

// v3SetField writes the constant c into field idx of the (fully allocated) object.
func v3SetField(em *m3.Environmental, idx int, c int) {
	switch idx {
	case 0:
		em.AV = m3.AttackVector(c)
	case 1:
		em.AC = m3.AttackComplexity(c)
	case 2:
		em.PR = m3.PrivilegesRequired(c)
	case 3:
		em.UI = m3.UserInteraction(c)
	case 4:
		em.S = m3.Scope(c)
	case 5:
		em.C = m3.ConfidentialityImpact(c)
	case 6:
		em.I = m3.IntegrityImpact(c)
	case 7:
		em.A = m3.AvailabilityImpact(c)
	case 8:
		em.E = m3.Exploitability(c)
	case 9:
		em.RL = m3.RemediationLevel(c)
	case 10:
		em.RC = m3.ReportConfidence(c)
	case 11:
		em.CR = m3.ConfidentialityRequirement(c)
	case 12:
		em.IR = m3.IntegrityRequirement(c)
	case 13:
		em.AR = m3.AvailabilityRequirement(c)
	case 14:
		em.MAV = m3.ModifiedAttackVector(c)
	case 15:
		em.MAC = m3.ModifiedAttackComplexity(c)
	case 16:
		em.MPR = m3.ModifiedPrivilegesRequired(c)
	case 17:
		em.MUI = m3.ModifiedUserInteraction(c)
	case 18:
		em.MS = m3.ModifiedScope(c)
	case 19:
		em.MC = m3.ModifiedConfidentialityImpact(c)
	case 20:
		em.MI = m3.ModifiedIntegrityImpact(c)
	case 21:
		em.MA = m3.ModifiedAvailabilityImpact(c)
	}
}

// v3GetBase/Temp/Env read field idx as an int constant.
func v3GetBaseField(b *m3.Base, idx int) int {
	switch idx {
	case 0:
		return int(b.AV)
	case 1:
		return int(b.AC)
	case 2:
		return int(b.PR)
	case 3:
		return int(b.UI)
	case 4:
		return int(b.S)
	case 5:
		return int(b.C)
	case 6:
		return int(b.I)
	case 7:
		return int(b.A)
	}
	return -1
}
func v3GetTempField(t *m3.Temporal, idx int) int {
	switch idx {
	case 8:
		return int(t.E)
	case 9:
		return int(t.RL)
	case 10:
		return int(t.RC)
	}
	return v3GetBaseField(t.Base, idx)
}
func v3GetEnvField(e *m3.Environmental, idx int) int {
	switch idx {
	case 11:
		return int(e.CR)
	case 12:
		return int(e.IR)
	case 13:
		return int(e.AR)
	case 14:
		return int(e.MAV)
	case 15:
		return int(e.MAC)
	case 16:
		return int(e.MPR)
	case 17:
		return int(e.MUI)
	case 18:
		return int(e.MS)
	case 19:
		return int(e.MC)
	case 20:
		return int(e.MI)
	case 21:
		return int(e.MA)
	}
	return v3GetTempField(e.Temporal, idx)
}

// v3CodeOf maps a constant back to the symbolic code of metric idx ("?" if none).
func v3CodeOf(idx int, c int) string {
	for _, cc := range v3Defs[idx].Codes {
		if cc.C == c {
			return cc.Code
		}
	}
	return "?"
}

func v3ConstOf(idx int, code string) (int, bool) {
	for _, cc := range v3Defs[idx].Codes {
		if cc.Code == code {
			return cc.C, true
		}
	}
	return 0, false
}

// v3Vec is a vector as code indices into v3Defs[i].Codes.
type v3Vec [v3N]uint8

func (v *v3Vec) codes(from, to int) string {
	b := make([]byte, 0, to-from)
	for i := from; i < to; i++ {
		b = append(b, v3Defs[i].Codes[v[i]].Code[0])
	}
	return string(b)
}

func (v *v3Vec) token(i int) string {
	return v3Defs[i].Name + ":" + v3Defs[i].Codes[v[i]].Code
}
