package main

import (
	"flag"
	"fmt"
	"math/rand"
	"reflect"
	"runtime"
	"strings"
	"sync/atomic"

	m3 "github.com/goark/go-cvss/v3/metric"
)

type v3obj struct {
	b *m3.Base
	t *m3.Temporal
	e *m3.Environmental
}

// useNilReceiver: decode through typed nil pointers instead of constructor results (C12)
var useNilReceiver bool

func v3Decode(dec byte, s string) (o v3obj, err error) {
	if useNilReceiver {
		switch dec {
		case 'B':
			o.b, err = (*m3.Base)(nil).Decode(s)
		case 'T':
			o.t, err = (*m3.Temporal)(nil).Decode(s)
			if err == nil {
				o.b = o.t.BaseMetrics()
			}
		case 'E':
			o.e, err = (*m3.Environmental)(nil).Decode(s)
			if err == nil {
				o.t = o.e.TemporalMetrics()
				o.b = o.e.BaseMetrics()
			}
		}
		return
	}
	switch dec {
	case 'B':
		o.b, err = m3.NewBase().Decode(s)
	case 'T':
		o.t, err = m3.NewTemporal().Decode(s)
		if err == nil {
			o.b = o.t.BaseMetrics()
		}
	case 'E':
		o.e, err = m3.NewEnvironmental().Decode(s)
		if err == nil {
			o.t = o.e.TemporalMetrics()
			o.b = o.e.BaseMetrics()
		}
	}
	return
}

// v3Tokens returns the tokens of the metrics [0,upto) of v; a metric whose bit is set
// in omit is left out (callers only omit metrics whose value is X).
func v3Tokens(v *v3Vec, upto int, omit uint32) []string {
	toks := make([]string, 0, upto)
	for i := 0; i < upto; i++ {
		if omit&(1<<uint(i)) != 0 {
			continue
		}
		toks = append(toks, v.token(i))
	}
	return toks
}

func v3Join(ver string, toks []string) string {
	return "CVSS:" + ver + "/" + strings.Join(toks, "/")
}

func v3EventBody(ver string, v *v3Vec, lvl string, f float64, sev string, direct bool) string {
	if flagPid == "C06" {
		return gridBody("v3", lvl, f, sev, false)
	}
	t, ex, s := obsScore(f)
	b := fmt.Sprintf(`"k":"v3","ver":%q,"b":%q,"t":%q,"e":%q,"lvl":%q,"obs":%d,"ex":%t,"str":%q,"sev":%q`,
		ver, v.codes(0, 8), v.codes(8, 11), v.codes(11, 22), lvl, t, ex, s, sev)
	if direct {
		b += `,"d":true`
	}
	return b
}

func v3ErrBody(ver string, v *v3Vec, lvl string, err error) string {
	return fmt.Sprintf(`"k":"v3","ver":%q,"b":%q,"t":%q,"e":%q,"lvl":%q,"obs":-99999,"ex":false,"str":%q,"sev":"-"`,
		ver, v.codes(0, 8), v.codes(8, 11), v.codes(11, 22), lvl, asciiSafe("decode error: "+err.Error()))
}

// xMask returns the bit mask of metrics in [from,to) whose value is X (index 0).
func xMask(v *v3Vec, from, to int) uint32 {
	var m uint32
	for i := from; i < to; i++ {
		if v[i] == 0 {
			m |= 1 << uint(i)
		}
	}
	return m
}

func randHigher(rng *rand.Rand, v *v3Vec, from, to int) {
	for i := from; i < to; i++ {
		v[i] = uint8(rng.Intn(len(v3Defs[i].Codes)))
	}
}

// enumerate base vectors: index -> v3Vec (base part)
func v3BaseCount() int {
	n := 1
	for i := 0; i < v3NBase; i++ {
		n *= len(v3Defs[i].Codes)
	}
	return n
}

func v3SetFromIndex(v *v3Vec, from, to int, idx int) {
	for i := from; i < to; i++ {
		k := len(v3Defs[i].Codes)
		v[i] = uint8(idx % k)
		idx /= k
	}
}

// ---------------------------------------------------------------------------
// C01: every (version, base vector) through all three decoders and several token orders
// ---------------------------------------------------------------------------
func cmdV3Base(args []string) {
	fs := flag.NewFlagSet("v3base", flag.ExitOnError)
	commonFlags(fs)
	fs.Parse(args)
	nperm := 2
	if !quick() {
		nperm = 24
	}
	nb := v3BaseCount()
	workers := runtime.NumCPU()
	recs := make([]*Recorder, workers)
	rngs := make([]*rand.Rand, workers)
	for i := range recs {
		recs[i] = NewRecorder()
		rngs[i] = newRand(i)
	}
	var decodes int64
	parallelFor(nb*2, workers, func(w, i int) {
		rec, rng := recs[w], rngs[w]
		ver := v3Versions[i%2].Label
		var v v3Vec
		v3SetFromIndex(&v, 0, v3NBase, i/2)
		direct := rng.Intn(20) == 0
		for _, dec := range []byte{'B', 'T', 'E'} {
			upto := map[byte]int{'B': 8, 'T': 11, 'E': 22}[dec]
			variants := 1
			if dec != 'B' {
				variants = 3
			}
			for variant := 0; variant < variants; variant++ {
				w2 := v // copy; higher-level metrics randomised in variant 1, exactly one defined in variant 2
				omit := uint32(0)
				if variant == 1 {
					randHigher(rng, &w2, 8, upto)
				} else if variant == 2 {
					k := 8 + rng.Intn(upto-8)
					w2[k] = uint8(1 + rng.Intn(len(v3Defs[k].Codes)-1))
					omit = xMask(&w2, 8, upto)
				} else {
					omit = xMask(&w2, 8, upto)
				}
				toks := v3Tokens(&w2, upto, omit)
				orders := [][]string{toks, reversed(toks)}
				for p := 0; p < nperm; p++ {
					orders = append(orders, permute(rng, toks))
				}
				for oi, ord := range orders {
					s := v3Join(ver, ord)
					atomic.AddInt64(&decodes, 1)
					o, err := v3Decode(dec, s)
					src := fmt.Sprintf("dec=%c order=%d vector=%s", dec, oi, s)
					if err != nil {
						rec.Add(v3ErrBody(ver, &v, "B", err), src)
						continue
					}
					// vary what was asked of the object before the base view is read
					if pre := rng.Intn(4); dec != 'B' && pre > 0 {
						switch {
						case dec == 'T' && pre == 1:
							o.t.Score()
						case dec == 'T':
							o.t.Encode()
							o.t.Severity()
						case dec == 'E' && pre == 1:
							o.e.Score()
						case dec == 'E' && pre == 2:
							o.e.Severity()
							o.e.TemporalMetrics().Score()
						default:
							o.e.Encode()
							o.e.GetError()
						}
						src += fmt.Sprintf(" after=%d", pre)
					}
					switch dec {
					case 'B':
						rec.Add(v3EventBody(ver, &v, "B", o.b.Score(), o.b.Severity().String(), direct), src+" via=Score")
						rec.Add(v3EventBody(ver, &v, "B", o.b.BaseMetrics().Score(), o.b.BaseMetrics().Severity().String(), direct), src+" via=BaseMetrics")
					case 'T':
						rec.Add(v3EventBody(ver, &v, "B", o.t.BaseMetrics().Score(), o.t.BaseMetrics().Severity().String(), direct), src+" via=BaseMetrics")
						rec.Add(v3EventBody(ver, &v, "B", o.t.Base.Score(), o.t.Base.Severity().String(), direct), src+" via=.Base")
					case 'E':
						rec.Add(v3EventBody(ver, &v, "B", o.e.BaseMetrics().Score(), o.e.BaseMetrics().Severity().String(), direct), src+" via=BaseMetrics")
						rec.Add(v3EventBody(ver, &v, "B", o.e.Base.Score(), o.e.Base.Severity().String(), direct), src+" via=.Base")
					}
				}
			}
		}
	})
	decodes += v3ExtraPass(recs[0], newRand(77), "B")
	all := NewRecorder()
	for _, r := range recs {
		all.Merge(r)
	}
	s := all.Flush(flagOut, "v3base", flagChunks)
	s.Extra = map[string]any{"decodes": decodes, "domain": nb * 2, "token_orders_per_decoder_variant": nperm + 2}
	printSummary(s)
}

// ---------------------------------------------------------------------------
// C02: every (version, base, E, RL, RC) through the Temporal and Environmental decoders
// ---------------------------------------------------------------------------
func cmdV3Temporal(args []string) {
	fs := flag.NewFlagSet("v3temporal", flag.ExitOnError)
	commonFlags(fs)
	fs.Parse(args)
	nb := v3BaseCount()
	nt := 5 * 5 * 4
	workers := runtime.NumCPU()
	recs := make([]*Recorder, workers)
	rngs := make([]*rand.Rand, workers)
	for i := range recs {
		recs[i] = NewRecorder()
		rngs[i] = newRand(100 + i)
	}
	var decodes int64
	parallelFor(nb*2, workers, func(w, i int) {
		rec, rng := recs[w], rngs[w]
		ver := v3Versions[i%2].Label
		var v v3Vec
		v3SetFromIndex(&v, 0, v3NBase, i/2)
		for ti := 0; ti < nt; ti++ {
			v3SetFromIndex(&v, 8, 11, ti)
			direct := rng.Intn(2000) == 0
			xm := xMask(&v, 8, 11)
			for _, dec := range []byte{'T', 'E'} {
				upto := 11
				if dec == 'E' {
					upto = 22
				}
				// omission patterns of the X-valued temporal metrics: all subsets (thorough)
				// or the two extremes plus a seeded one (quick)
				var omits []uint32
				if quick() && flagPid == "C06" {
					omits = []uint32{xm & uint32(rng.Intn(1<<11))}
				} else if quick() {
					omits = []uint32{0, xm}
					if xm != 0 {
						omits = append(omits, xm&uint32(rng.Intn(1<<11)))
					}
				} else {
					for sub := xm; ; sub = (sub - 1) & xm {
						omits = append(omits, sub)
						if sub == 0 {
							break
						}
					}
				}
				for oi, om := range omits {
					w2 := v
					omit := om
					if dec == 'E' {
						if oi%2 == 0 {
							omit |= xMask(&w2, 11, 22) // environmental metrics omitted
						} else {
							randHigher(rng, &w2, 11, 22) // or arbitrary: the temporal score must not care
						}
					}
					toks := v3Tokens(&w2, upto, omit)
					if oi > 0 {
						toks = permute(rng, toks)
					}
					s := v3Join(ver, toks)
					atomic.AddInt64(&decodes, 1)
					o, err := v3Decode(dec, s)
					src := fmt.Sprintf("dec=%c vector=%s", dec, s)
					if err != nil {
						rec.Add(v3ErrBody(ver, &v, "T", err), src)
						continue
					}
					if dec == 'T' {
						if rng.Intn(2) == 0 {
							o.t.BaseMetrics().Score()
							o.t.Encode()
						}
						rec.Add(v3EventBody(ver, &v, "T", o.t.Score(), o.t.Severity().String(), direct), src+" via=Score")
					} else {
						if pre := rng.Intn(4); pre == 1 {
							o.e.Score()
							src += " after=Score"
						} else if pre == 3 {
							o.e.TemporalMetrics().Score()
							o.e.Score()
							src += " after=Temporal.Score,Score"
						} else if pre == 2 {
							o.e.Severity()
							o.e.Encode()
							src += " after=Severity,Encode"
						}
						tm := o.e.TemporalMetrics()
						rec.Add(v3EventBody(ver, &v, "T", tm.Score(), tm.Severity().String(), direct), src+" via=TemporalMetrics")
						rec.Add(v3EventBody(ver, &v, "T", o.e.Temporal.Score(), o.e.Temporal.Severity().String(), direct), src+" via=.Temporal")
					}
				}
			}
		}
	})
	decodes += v3ExtraPass(recs[0], newRand(78), "T")
	all := NewRecorder()
	for _, r := range recs {
		all.Merge(r)
	}
	s := all.Flush(flagOut, "v3temporal", flagChunks)
	s.Extra = map[string]any{"decodes": decodes, "domain": nb * 2 * nt}
	printSummary(s)
}

func init() {
	register("v3base", cmdV3Base)
	register("v3temporal", cmdV3Temporal)
}

// ---------------------------------------------------------------------------
// Sequential extra pass shared by C01, C02, C03 (the decodeOne hook and useNilReceiver are package-level variables):
// every (version, base vector) with seeded optional metrics is decoded once more
//
//	(a) through typed nil receivers (the library documents Decode on a nil pointer), optional X metrics omitted, and
//	(b) with a seeded query (Score, String, Severity, Encode, GetError) asked of the receiver at EVERY token boundary,
//	    through the build-tag hook at the entry of decodeOne -- queries are read-only (C15), so the scores of the
//	    finished object must be the ones of the equations all the same.
//
// lvl selects the score that is observed ("B", "T" or "E").
// ---------------------------------------------------------------------------
func hookQueries(rng *rand.Rand) func(string, any, string) {
	return func(site string, recv any, arg string) {
		defer func() { recover() }()
		rv := reflect.ValueOf(recv)
		if !rv.IsValid() || (rv.Kind() == reflect.Ptr && rv.IsNil()) {
			return
		}
		name := []string{"Score", "String", "Severity", "Encode", "GetError", "Score"}[rng.Intn(6)]
		if m := rv.MethodByName(name); m.IsValid() && m.Type().NumIn() == 0 {
			m.Call(nil)
		}
	}
}

func v3ExtraPass(rec *Recorder, rng *rand.Rand, lvl string) int64 {
	var n int64
	nb := v3BaseCount()
	for i := 0; i < nb*2; i++ {
		ver := v3Versions[i%2].Label
		var v v3Vec
		v3SetFromIndex(&v, 0, v3NBase, i/2)
		for _, mode := range []string{"nil-receiver", "queried-during-decode"} {
			decs := map[string][]byte{"B": {'B', 'T', 'E'}, "T": {'T', 'E'}, "E": {'E'}}[lvl]
			for _, dec := range decs {
				upto := map[byte]int{'B': 8, 'T': 11, 'E': 22}[dec]
				w2 := v
				if upto > 8 {
					randHigher(rng, &w2, 8, upto)
				}
				// the observed score depends on the metrics up to lvl only: the event names exactly those
				ev := w2
				evUpto := map[string]int{"B": 8, "T": 11, "E": 22}[lvl]
				for k := evUpto; k < v3N; k++ {
					ev[k] = 0
				}
				omit := xMask(&w2, 8, upto)
				if rng.Intn(3) == 0 {
					omit &= uint32(rng.Int63())
				}
				toks := v3Tokens(&w2, upto, omit)
				if rng.Intn(4) != 0 {
					toks = permute(rng, toks)
				}
				s := v3Join(ver, toks)
				if mode == "nil-receiver" {
					useNilReceiver = true
					// a REJECTED vector with every optional metric defined goes through a nil receiver first: whatever the
					// library recycles between calls must not carry its values into the next decode
					var junk v3Vec
					for k := 0; k < v3N; k++ {
						junk[k] = uint8(1 + rng.Intn(len(v3Defs[k].Codes)-1))
					}
					jt := v3Tokens(&junk, upto, 0)
					switch rng.Intn(3) {
					case 0:
						jt = append(jt, "XX:Y") // unsupported metric (deferred error)
					case 1:
						jt = jt[1:] // a base metric is missing
					default:
						jt = append(jt, jt[len(jt)-1]) // repeated metric
					}
					v3Decode(dec, v3Join(ver, jt))
				} else {
					setHook(hookQueries(rng))
				}
				o, err := v3Decode(dec, s)
				useNilReceiver = false
				setHook(nil)
				n++
				src := fmt.Sprintf("%s dec=%c vector=%s", mode, dec, s)
				if err != nil {
					rec.Add(v3ErrBody(ver, &ev, lvl, err), src)
					continue
				}
				switch lvl {
				case "B":
					rec.Add(v3EventBody(ver, &ev, "B", o.b.Score(), o.b.Severity().String(), false), src)
				case "T":
					rec.Add(v3EventBody(ver, &ev, "T", o.t.Score(), o.t.Severity().String(), false), src)
				default:
					rec.Add(v3EventBody(ver, &ev, "E", o.e.Score(), o.e.Severity().String(), false), src)
				}
			}
		}
	}
	return n
}
