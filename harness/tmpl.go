package main

import (
	"bufio"
	"bytes"
	"encoding/json"
	"errors"
	"flag"
	"fmt"
	"github.com/goark/errs"
	"io"
	"os"
	"reflect"
	"runtime"
	"strings"
	"text/template"

	m3 "github.com/goark/go-cvss/v3/metric"
	"github.com/goark/go-cvss/v3/report"
)

type exporter interface {
	ExportWith(r io.Reader) (io.Reader, error)
	ExportWithString(str string) (io.Reader, error)
}

// chunkReader delivers its data in chunks of the given size and fails (or ends) after failAt chunks
type chunkReader struct {
	data        []byte
	size        int
	n           int
	failAt      int
	eofWithData bool // deliver the final chunk together with io.EOF (the io.Reader contract allows it)
}

var errReader = errors.New("injected reader failure")

type customReadError struct{ op string }

func (e *customReadError) Error() string { return "custom read error during " + e.op }

// the errors a failing reader fails with: whatever their type and whatever they wrap, the export must report the
// invalid-template sentinel and deliver nothing
var readerErrors = []error{
	errReader,
	io.ErrUnexpectedEOF,
	io.ErrClosedPipe,
	&customReadError{"fetch"},
	fmt.Errorf("fetch template: %w", io.ErrUnexpectedEOF),
	errs.New("connection reset"),
	errs.Wrap(io.ErrUnexpectedEOF),
	fmt.Errorf("fetch template: %w", errs.Wrap(io.ErrClosedPipe, errs.WithContext("url", "x"))),
	errs.Wrap(errReader, errs.WithCause(io.ErrNoProgress)),
	io.ErrShortBuffer,
}

func (c *chunkReader) Read(p []byte) (int, error) {
	if c.failAt >= 0 && c.n >= c.failAt {
		return 0, readerErrors[(c.failAt+len(c.data)+c.size)%len(readerErrors)]
	}
	if len(c.data) == 0 {
		return 0, io.EOF
	}
	k := c.size
	if k > len(c.data) {
		k = len(c.data)
	}
	if k > len(p) {
		k = len(p)
	}
	copy(p, c.data[:k])
	c.data = c.data[k:]
	c.n++
	if c.eofWithData && len(c.data) == 0 {
		return k, io.EOF
	}
	return k, nil
}

type tmplEvent struct {
	K         string            `json:"k"`
	Lvl       string            `json:"lvl"`
	Lang      string            `json:"lang"`
	S         string            `json:"s"`
	Rep       map[string]string `json:"rep"`
	Segs      []map[string]any  `json:"segs"` // empty: template outside the modelled grammar
	Text      string            `json:"text"`
	Mode      string            `json:"mode"` // string | reader
	Chunk     int               `json:"chunk"`
	FailAt    int               `json:"failAt"` // -1: the reader does not fail
	NilReader bool              `json:"nilReader"`
	NilReport bool              `json:"nilReport"`
	Ok        bool              `json:"ok"`
	Out       string            `json:"out"`
	GotReader bool              `json:"gotReader"`
	Sent      []string          `json:"sent"`
	Panic     string            `json:"panic"`
	RefOk     bool              `json:"refOk"`
	RefOut    string            `json:"refOut"`
}

// allPromoted: what every unqualified field name resolves to (reflect.FieldByName = template lookup)
func allPromoted(v reflect.Value, out map[string]string) {
	names := map[string]bool{}
	var walk func(t reflect.Type)
	walk = func(t reflect.Type) {
		if t.Kind() == reflect.Ptr {
			t = t.Elem()
		}
		for i := 0; i < t.NumField(); i++ {
			f := t.Field(i)
			if f.Type.Kind() == reflect.String {
				names[f.Name] = true
			} else if f.Anonymous {
				walk(f.Type)
			}
		}
	}
	walk(v.Type())
	if v.Kind() == reflect.Ptr {
		v = v.Elem()
	}
	for n := range names {
		f := v.FieldByName(n)
		if f.IsValid() && f.Kind() == reflect.String {
			out["^"+n] = asciiSafe(f.String())
		}
	}
}

func runExport(rep any, nilReport bool, lvl byte, text string, mode string, chunk, failAt int, nilReader bool) (ok bool, out string, got bool, sent []string, pnc string) {
	defer func() {
		if r := recover(); r != nil {
			pnc = asciiSafe(fmt.Sprint(r))
		}
	}()
	var ex exporter
	switch lvl {
	case 'B':
		if nilReport {
			ex = (*report.BaseReport)(nil)
		} else {
			ex = rep.(*report.BaseReport)
		}
	case 'T':
		if nilReport {
			ex = (*report.TemporalReport)(nil)
		} else {
			ex = rep.(*report.TemporalReport)
		}
	default:
		if nilReport {
			ex = (*report.EnvironmentalReport)(nil)
		} else {
			ex = rep.(*report.EnvironmentalReport)
		}
	}
	var r io.Reader
	var err error
	if mode == "string" {
		r, err = ex.ExportWithString(text)
	} else if nilReader {
		r, err = ex.ExportWith(nil)
	} else if strings.HasPrefix(mode, "reader:") {
		r, err = ex.ExportWith(stdReader(mode[len("reader:"):], text, chunk))
	} else {
		r, err = ex.ExportWith(&chunkReader{data: []byte(text), size: chunk, failAt: failAt, eofWithData: mode == "reader-eof"})
	}
	ok = err == nil
	sent = sentinelsOf(err)
	got = r != nil && !reflect.ValueOf(r).IsNil()
	if got {
		b, _ := io.ReadAll(r)
		out = asciiSafe(string(b))
	}
	return
}

// stdReader: a reader of the standard library whose REMAINING content is text; `consumed` bytes in front of it were
// read (or skipped) before the export sees the reader -- "the reader's full content" is what it still has to give
func stdReader(kind, text string, consumed int) io.Reader {
	prefix := strings.Repeat("#", consumed)
	all := prefix + text
	skip := func(r io.Reader) io.Reader {
		if consumed > 0 {
			io.CopyN(io.Discard, r, int64(consumed))
		}
		return r
	}
	switch kind {
	case "strings":
		return skip(strings.NewReader(all))
	case "bytes":
		return skip(bytes.NewReader([]byte(all)))
	case "buffer":
		return skip(bytes.NewBufferString(all))
	case "section":
		return io.NewSectionReader(strings.NewReader(all), int64(consumed), int64(len(text)))
	case "section-consumed":
		return skip(io.NewSectionReader(strings.NewReader("pad"+all), 3, int64(len(all))))
	case "bufio":
		return skip(bufio.NewReaderSize(strings.NewReader(all), 16))
	case "limit":
		return io.LimitReader(skip(strings.NewReader(all+"trailing bytes beyond the limit")), int64(len(text)))
	case "multi":
		h := len(text) / 2
		return io.MultiReader(skip(strings.NewReader(prefix+text[:h])), strings.NewReader(""), bytes.NewReader([]byte(text[h:])))
	case "seek":
		sr := strings.NewReader(all)
		sr.Seek(int64(consumed), io.SeekStart)
		return sr
	}
	return strings.NewReader(text)
}

var stdReaderKinds = []string{"strings", "bytes", "buffer", "section", "section-consumed", "bufio", "limit", "multi", "seek"}

func refRender(rep any, text string) (bool, string) {
	t, err := template.New("Repost").Parse(text) // same root name as the library uses: a template may refer to it
	if err != nil {
		return false, ""
	}
	var buf bytes.Buffer
	if err := t.Execute(&buf, rep); err != nil {
		return false, ""
	}
	return true, asciiSafe(buf.String())
}

var randomTemplates = []string{"", "plain text", "{{.Vector}}", "{{.BaseScore}} {{.SeverityValue}}", "{{/* only a comment */}}", "{{define \"x\"}}X{{end}}{{template \"x\"}}",
	"{{template \"missing\"}}", "{{.Vector}}{{.Vector}}{{.Vector}}", "{{len .Vector}}", "{{index .Vector 0}}", "{{.Vector.Foo}}", "{{$x := .Vector}}{{$x}}",
	"{{if .AVValue}}{{.AVName}}: {{.AVValue}}{{end}}", "{{range $i, $c := .Vector}}{{end}}", "{{printf \"%q\" .Version}}", "{{html .Vector}}", "{{js .Vector}}",
	"{{.Version | printf \"%s-%s\" \"a\"}}", "{{with .NoField}}x{{end}}", "{{.}}", "{{nil}}", "{{1 | .Vector}}", "{{call .Vector}}", "{{eq .Version \"3.1\"}}",
	"{{if eq .Version \"3.0\"}}three-zero{{else}}other{{end}}", "{{ .Vector }}\n{{- .Version -}}\n", "{{\"\\\"quoted\\\"\"}}", "{{`raw`}}", "{{.Vector}", "{.Vector}}", "{{end}}", "{{else}}",
	"{{if}}x{{end}}", "{{range}}", "{{ .BaseReport }}", "{{ .TemporalReport.BaseReport.Vector }}", "{{ .BaseReport.Vector }}|{{ .Vector }}", "日本語 {{.SeverityValue}} テンプレート",
	"{{template \"Repost\" .}}", "{{block \"b\" .}}{{.Vector}}{{end}}",
	// templates that share sub-template names: each export must be independent of the others
	"{{define \"sev\"}}[{{.SeverityValue}}]{{end}}{{.BaseScore}} {{template \"sev\" .}}", "{{.Vector}} {{template \"sev\" .}}",
	"{{define \"sev\"}}<{{.SeverityName}}>{{end}}{{.BaseScore}} {{template \"sev\" .}}", "{{block \"sev\" .}}default{{end}}", "{{template \"b\" .}}",
	"{{define \"x\"}}Y{{end}}{{template \"x\"}}", "{{template \"x\"}}", "{{define \"Repost\"}}self{{end}}", "{{break}}", "{{continue}}", "{{.SeverityName}}={{.SeverityValue}};{{.TemporalReport.SeverityValue}}"}

func cmdTmpl(args []string) {
	fs := flag.NewFlagSet("tmpl", flag.ExitOnError)
	commonFlags(fs)
	in := fs.String("in", "", "NDJSON templates {segs, src} from MC_Template")
	nrep := fs.Int("reports", 6, "reports per template")
	fs.Parse(args)
	type tin struct {
		Segs []map[string]any `json:"segs"`
		Src  string           `json:"src"`
	}
	var ts []tin
	if f, err := os.Open(*in); err == nil {
		sc := bufio.NewScanner(f)
		sc.Buffer(make([]byte, 1<<20), 1<<26)
		for sc.Scan() {
			var t tin
			if json.Unmarshal(sc.Bytes(), &t) == nil && len(t.Segs) > 0 {
				ts = append(ts, t)
			}
		}
		f.Close()
	}
	grammar := len(ts)
	for _, s := range randomTemplates {
		ts = append(ts, tin{nil, s})
	}
	// long templates: beyond any fixed-size read buffer
	for _, n := range []int{511, 512, 513, 4095, 4096, 4097, 8191, 8193, 65536, 70001, 1 << 20} {
		pad := make([]byte, n)
		for i := range pad {
			pad[i] = "abcdefghij"[i%10]
		}
		ts = append(ts, tin{nil, "{{.Vector}}" + string(pad) + "{{.BaseScore}}"}, tin{nil, string(pad[:n-3]) + "{{.Vector}}" + string(pad[:7])})
	}
	// a few reports of every level and language
	type rp struct {
		lvl  byte
		lang string
		s    string
		rep  any
		flat map[string]string
	}
	vecs := map[byte][]string{
		'B': {"CVSS:3.1/AV:N/AC:L/PR:N/UI:R/S:C/C:H/I:L/A:N", "CVSS:3.0/AV:P/AC:H/PR:H/UI:N/S:U/C:N/I:N/A:N"},
		'T': {"CVSS:3.1/AV:A/AC:H/PR:H/UI:N/S:U/C:N/I:N/A:L/E:F/RL:X/RC:R", "CVSS:3.0/AV:N/AC:L/PR:N/UI:N/S:U/C:H/I:H/A:H"},
		'E': {"CVSS:3.1/AV:N/AC:L/PR:N/UI:N/S:U/C:H/I:H/A:H/E:X/RL:O/RC:X/CR:H/IR:X/AR:L/MAV:A/MAC:X/MPR:L/MUI:X/MS:C/MC:X/MI:N/MA:H", "CVSS:3.0/AV:L/AC:L/PR:L/UI:R/S:C/C:L/I:H/A:H/E:U/MAV:P"},
	}
	var reps []rp
	for _, lvl := range []byte{'B', 'T', 'E'} {
		for i, s := range vecs[lvl] {
			lang := []string{"en", "ja"}[i%2]
			o, err := v3Decode(lvl, s)
			if err != nil {
				die("decode %s: %v", s, err)
			}
			opt := report.WithOptionsLanguage(langTags[lang])
			var rep any
			switch lvl {
			case 'B':
				rep = report.NewBase(o.b, opt)
			case 'T':
				rep = report.NewTemporal(o.t, opt)
			default:
				rep = report.NewEnvironmental(o.e, opt)
			}
			flat := map[string]string{}
			flattenReport(reflect.ValueOf(rep), "", flat)
			allPromoted(reflect.ValueOf(rep), flat)
			reps = append(reps, rp{lvl, lang, s, rep, flat})
		}
	}
	if *nrep < len(reps) {
		reps = reps[:*nrep]
	}
	_ = m3.NewBase
	workers := runtime.NumCPU()
	recs := make([]*Recorder, workers)
	for i := range recs {
		recs[i] = NewRecorder()
	}
	parallelFor(len(ts), workers, func(w, i int) {
		t := ts[i]
		text := unescape(t.Src)
		rng := newRand(3000 + i)
		for ri, r := range reps {
			refOk, refOut := refRender(r.rep, text)
			emit := func(mode string, chunk, failAt int, nilReader, nilReport bool) {
				ev := &tmplEvent{K: "tmpl", Lvl: string(r.lvl), Lang: r.lang, S: r.s, Rep: r.flat, Segs: t.Segs, Text: asciiSafe(text), Mode: mode,
					Chunk: chunk, FailAt: failAt, NilReader: nilReader, NilReport: nilReport, RefOk: refOk, RefOut: refOut}
				if ev.Segs == nil {
					ev.Segs = []map[string]any{}
				}
				ev.Ok, ev.Out, ev.GotReader, ev.Sent, ev.Panic = runExport(r.rep, nilReport, r.lvl, text, mode, chunk, failAt, nilReader)
				if ev.Sent == nil {
					ev.Sent = []string{}
				}
				recs[w].Add(evBody(ev), "Export")
			}
			emit("string", 0, -1, false, false)
			emit("reader", []int{1, 7, 1 << 20}[(i+ri)%3], -1, false, false)
			emit("reader-eof", []int{1 << 20, 1, 5}[(i+ri)%3], -1, false, false)
			// readers of the standard library, fresh (0 bytes consumed) or partly consumed / positioned
			emit("reader:"+stdReaderKinds[(i+ri)%len(stdReaderKinds)], []int{0, 11, 1, 4096}[(i/3+ri)%4], -1, false, false)
			if (i+ri)%5 == 0 {
				nchunks := (len(text) + 2) / 3
				emit("reader", 3, rng.Intn(nchunks+1), false, false) // fails before/at/after some chunk
				emit("reader", 0, -1, true, false)
				emit("string", 0, -1, false, true)
				emit("reader", 5, -1, false, true)
			}
		}
	})
	// history pass: the hand-written templates exported one after the other in one goroutine,
	// forwards, backwards and forwards again: every export must equal a fresh text/template run
	for pass := 0; pass < 3; pass++ {
		for k := 0; k < len(ts)-grammar; k++ {
			i := grammar + k
			if pass == 1 {
				i = len(ts) - 1 - k
			}
			text := unescape(ts[i].Src)
			if len(text) > 2000 {
				continue
			}
			r := reps[(k+pass)%len(reps)]
			refOk, refOut := refRender(r.rep, text)
			ev := &tmplEvent{K: "tmpl", Lvl: string(r.lvl), Lang: r.lang, S: r.s, Rep: r.flat, Segs: []map[string]any{}, Text: asciiSafe(text),
				Mode: fmt.Sprintf("string (history pass %d, position %d)", pass, k), FailAt: -1, RefOk: refOk, RefOut: refOut}
			ev.Ok, ev.Out, ev.GotReader, ev.Sent, ev.Panic = runExport(r.rep, false, r.lvl, text, "string", 0, -1, false)
			if ev.Sent == nil {
				ev.Sent = []string{}
			}
			recs[0].Add(evBody(ev), "Export (history pass)")
		}
	}
	// deferred reading: the reader returned by one export is read only after another export has
	// happened (a result must not alias memory that a later export reuses)
	{
		var hand []int
		for k := grammar; k < len(ts); k++ {
			if len(ts[k].Src) < 400 {
				hand = append(hand, k)
			}
		}
		for n := 0; n+1 < len(hand); n++ {
			a, b := hand[n], hand[(n*7+3)%len(hand)]
			ra, rb := reps[n%len(reps)], reps[(n+1)%len(reps)]
			ta, tb := unescape(ts[a].Src), unescape(ts[b].Src)
			refOk, refOut := refRender(ra.rep, ta)
			ev := &tmplEvent{K: "tmpl", Lvl: string(ra.lvl), Lang: ra.lang, S: ra.s, Rep: ra.flat, Segs: []map[string]any{}, Text: asciiSafe(ta),
				Mode: "string, read after a later export", FailAt: -1, RefOk: refOk, RefOut: refOut, Sent: []string{}}
			func() {
				defer func() {
					if r := recover(); r != nil {
						ev.Panic = asciiSafe(fmt.Sprint(r))
					}
				}()
				var exA, exB exporter
				for _, x := range []struct {
					r  rp
					ex *exporter
				}{{ra, &exA}, {rb, &exB}} {
					switch x.r.lvl {
					case 'B':
						*x.ex = x.r.rep.(*report.BaseReport)
					case 'T':
						*x.ex = x.r.rep.(*report.TemporalReport)
					default:
						*x.ex = x.r.rep.(*report.EnvironmentalReport)
					}
				}
				r1, err := exA.ExportWithString(ta)
				ev.Ok, ev.Sent = err == nil, sentinelsOf(err)
				// a later export, through a reader, fully drained
				if r2, err2 := exB.ExportWith(&chunkReader{data: []byte(tb + " padding padding padding"), size: 7, failAt: -1}); err2 == nil && r2 != nil {
					io.ReadAll(r2)
				}
				ev.GotReader = r1 != nil && !reflect.ValueOf(r1).IsNil()
				if ev.GotReader {
					bs, _ := io.ReadAll(r1)
					ev.Out = asciiSafe(string(bs))
				}
			}()
			recs[0].Add(evBody(ev), "Export, result read after a later export")
		}
	}
	all := NewRecorder()
	for _, r := range recs {
		all.Merge(r)
	}
	s := all.Flush(flagOut, "tmpl", flagChunks)
	s.Extra = map[string]any{"templates_from_tlc": grammar, "templates_outside_grammar": len(randomTemplates), "reports": len(reps)}
	printSummary(s)
}

func init() { register("tmpl", cmdTmpl) }
