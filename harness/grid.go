package main

import (
	"flag"
	"fmt"
	"runtime"
	"sync"
	"sync/atomic"

	m2 "github.com/goark/go-cvss/v2/metric"
	m3 "github.com/goark/go-cvss/v3/metric"
	"github.com/goark/go-cvss/v3/report"
)

// ---------------------------------------------------------------------------
// C06 observation tuples: (family, level, score tenth, exactness, printed form, severity,
// negative-equation flag).  The vector is dropped, so 10^8 scores collapse into a few
// hundred tuples that TLC judges one by one.
// ---------------------------------------------------------------------------
type gridKey struct {
	fam, lvl, sev string
	f             float64
	neg           bool
}

var gridCache sync.Map // read-mostly: a few hundred tuples for 10^8 scores

func gridBody(fam, lvl string, f float64, sev string, neg bool) string {
	k := gridKey{fam, lvl, sev, f, neg}
	if b, ok := gridCache.Load(k); ok {
		return b.(string)
	}
	t, ex, s := obsScore(f)
	b := fmt.Sprintf(`"k":"g","fam":%q,"lvl":%q,"obs":%d,"ex":%t,"str":%q,"sev":%q,"neg":%t`, fam, lvl, t, ex, s, sev, neg)
	gridCache.Store(k, b)
	return b
}

var (
	v2NegOnce sync.Once
	v2NegSet  map[string]bool
)

// v2NegEq: is the specification's adjusted base equation negative for this vector?
// Looked up in the list TLC emitted (gen/v2neg.json); the harness does not compute it.
func v2NegEq(v *v2Vec) bool {
	v2NegOnce.Do(func() {
		var d struct {
			Neg []string `json:"neg"`
		}
		loadJSON("v2neg.json", &d)
		v2NegSet = map[string]bool{}
		for _, k := range d.Neg {
			v2NegSet[k] = true
		}
	})
	c := func(i int) string { return v2Defs[i].Codes[v[i]].Code }
	return v2NegSet[c(0)+"/"+c(1)+"/"+c(2)+"/"+c(3)+"/"+c(4)+"/"+c(5)+"/"+c(11)+"/"+c(12)+"/"+c(13)]
}

// report score fields of all three v3 report levels
func cmdV3ReportScores(args []string) {
	fs := flag.NewFlagSet("v3reportscores", flag.ExitOnError)
	commonFlags(fs)
	n := fs.Int("n", 300000, "random temporal/environmental vectors")
	fs.Parse(args)
	workers := runtime.NumCPU()
	recs := make([]*Recorder, workers)
	for i := range recs {
		recs[i] = NewRecorder()
	}
	var cnt int64
	nb := v3BaseCount()
	parallelFor(nb*2, workers, func(w, i int) {
		var v v3Vec
		v3SetFromIndex(&v, 0, v3NBase, i/2)
		s := v3Join(v3Versions[i%2].Label, v3Tokens(&v, 8, 0))
		bm, err := m3.NewBase().Decode(s)
		if err != nil {
			return
		}
		r := report.NewBase(bm)
		t, ex, _ := obsScore(bm.Score())
		recs[w].Add(fmt.Sprintf(`"k":"g","fam":"v3r","lvl":"B","obs":%d,"ex":%t,"str":%q,"sev":%q,"neg":false`, t, ex, r.BaseScore, bm.Severity().String()), "report.NewBase("+s+").BaseScore")
		atomic.AddInt64(&cnt, 1)
	})
	parallelFor(*n, workers, func(w, i int) {
		rng := newRand(5000 + i)
		var v v3Vec
		for j := 0; j < v3N; j++ {
			v[j] = uint8(rng.Intn(len(v3Defs[j].Codes)))
		}
		s := v3Join(v3Versions[i%2].Label, v3Tokens(&v, 22, 0))
		em, err := m3.NewEnvironmental().Decode(s)
		if err != nil {
			return
		}
		r := report.NewEnvironmental(em)
		t, ex, _ := obsScore(em.Score())
		recs[w].Add(fmt.Sprintf(`"k":"g","fam":"v3r","lvl":"E","obs":%d,"ex":%t,"str":%q,"sev":%q,"neg":false`, t, ex, r.EnvironmentalScore, em.Severity().String()), "report.NewEnvironmental("+s+").EnvironmentalScore")
		tm := em.TemporalMetrics()
		t, ex, _ = obsScore(tm.Score())
		recs[w].Add(fmt.Sprintf(`"k":"g","fam":"v3r","lvl":"T","obs":%d,"ex":%t,"str":%q,"sev":%q,"neg":false`, t, ex, r.TemporalScore, tm.Severity().String()), "report.NewEnvironmental("+s+").TemporalScore")
		t, ex, _ = obsScore(em.BaseMetrics().Score())
		recs[w].Add(fmt.Sprintf(`"k":"g","fam":"v3r","lvl":"B","obs":%d,"ex":%t,"str":%q,"sev":%q,"neg":false`, t, ex, r.BaseScore, em.BaseMetrics().Severity().String()), "report.NewEnvironmental("+s+").BaseScore")
		atomic.AddInt64(&cnt, 3)
	})
	all := NewRecorder()
	for _, r := range recs {
		all.Merge(r)
	}
	s := all.Flush(flagOut, "v3reportscores", 1)
	s.Extra = map[string]any{"report_fields": cnt}
	printSummary(s)
}

// ---------------------------------------------------------------------------
// C13: relations between the levels of one vector, as tuples
// ---------------------------------------------------------------------------
func relBody(rel, ver, scope string, lo, hi float64) string {
	tl, exl, _ := obsScore(lo)
	th, exh, _ := obsScore(hi)
	if !exl {
		tl = 99999
	}
	if !exh {
		th = 99999
	}
	return fmt.Sprintf(`"k":"rel","rel":%q,"ver":%q,"scope":%q,"lo":%d,"hi":%d`, rel, ver, scope, tl, th)
}

func cmdRel13(args []string) {
	fs := flag.NewFlagSet("rel13", flag.ExitOnError)
	commonFlags(fs)
	fs.Parse(args)
	workers := runtime.NumCPU()
	recs := make([]*Recorder, workers)
	for i := range recs {
		recs[i] = NewRecorder()
	}
	var vectors int64
	nb := v3BaseCount()
	// v3
	parallelFor(nb*2, workers, func(w, i int) {
		rec := recs[w]
		rng := newRand(7000 + i)
		ver := v3Versions[i%2].Label
		var v v3Vec
		v3SetFromIndex(&v, 0, v3NBase, i/2)
		scope := v3Defs[4].Codes[v[4]].Code
		// temporal all Not Defined, every spelled/omitted pattern, both decoders
		for omit := uint32(0); omit < 8; omit++ {
			for _, dec := range []byte{'T', 'E'} {
				upto := 11
				om := omit << 8
				if dec == 'E' {
					upto = 22
					om |= xMask(&v, 11, 22) & uint32(rng.Int63())
				}
				s := v3Join(ver, v3Tokens(&v, upto, om))
				o, err := v3Decode(dec, s)
				if err != nil {
					rec.Add(relBody("temporalAllND=base", ver, scope, -1, -2), "decode error "+s)
					continue
				}
				rec.Add(relBody("temporalAllND=base", ver, scope, o.t.Score(), o.b.Score()), "dec="+string(dec)+" vector="+s)
				atomic.AddInt64(&vectors, 1)
			}
		}
		for ti := 0; ti < 100; ti++ {
			v3SetFromIndex(&v, 8, 11, ti)
			// environmental all Not Defined (spelled or omitted at random per metric)
			om := xMask(&v, 8, 22) & uint32(rng.Int63())
			s := v3Join(ver, v3Tokens(&v, 22, om))
			o, err := v3Decode('E', s)
			if err != nil {
				rec.Add(relBody("envAllND=temporal", ver, scope, -1, -2), "decode error "+s)
				continue
			}
			rec.Add(relBody("envAllND=temporal", ver, scope, o.e.Score(), o.t.Score()), "vector="+s)
			rec.Add(relBody("temporal<=base", ver, scope, o.t.Score(), o.b.Score()), "vector="+s)
			// and through the temporal decoder
			s2 := v3Join(ver, v3Tokens(&v, 11, om&0x7ff))
			o2, err := v3Decode('T', s2)
			if err != nil {
				rec.Add(relBody("temporal<=base", ver, scope, -1, -2), "decode error "+s2)
				continue
			}
			rec.Add(relBody("temporal<=base", ver, scope, o2.t.Score(), o2.b.Score()), "vector="+s2)
			atomic.AddInt64(&vectors, 2)
		}
	})
	// v3, exported fields assigned directly on a decoded object (environmental metrics all Not Defined)
	parallelFor(nb*2, workers, func(w, i int) {
		rec := recs[w]
		ver := v3Versions[i%2]
		var v v3Vec
		v3SetFromIndex(&v, 0, v3NBase, i/2)
		scope := v3Defs[4].Codes[v[4]].Code
		em, err := m3.NewEnvironmental().Decode(v3Join(ver.Label, v3Tokens(&v, 8, 0)))
		if err != nil {
			return
		}
		for ti := 0; ti < 100; ti++ {
			v3SetFromIndex(&v, 8, 11, ti)
			for k := 8; k < 11; k++ {
				v3SetField(em, k, v3Defs[k].Codes[v[k]].C)
			}
			rec.Add(relBody("envAllND=temporal", ver.Label, scope, em.Score(), em.TemporalMetrics().Score()), "assign E/RL/RC on "+em.String())
			rec.Add(relBody("temporal<=base", ver.Label, scope, em.TemporalMetrics().Score(), em.BaseMetrics().Score()), "assign E/RL/RC on "+em.String())
			atomic.AddInt64(&vectors, 1)
		}
	})
	// v2
	nb2 := v2Count(0, 6)
	nt2 := v2Count(6, 9)
	parallelFor(nb2, workers, func(w, bi int) {
		rec := recs[w]
		var v v2Vec
		v2SetFromIndex(&v, 0, 6, bi)
		// temporal group absent or all ND
		for _, temporal := range []bool{false, true} {
			v[6], v[7], v[8] = 4, 4, 3
			for _, dec := range []byte{'T', 'E'} {
				s := v2String(&v, temporal, false)
				o, err := v2Decode(dec, s)
				if err != nil {
					rec.Add(relBody("temporalAllND=base", "2", "", -1, -2), "decode error "+s)
					continue
				}
				rec.Add(relBody("temporalAllND=base", "2", "", o.t.Score(), o.b.Score()), "dec="+string(dec)+" vector="+s)
			}
		}
		for ti := 0; ti < nt2; ti++ {
			v2SetFromIndex(&v, 6, 9, ti)
			s := v2String(&v, true, false)
			o, err := v2Decode('T', s)
			if err != nil {
				rec.Add(relBody("temporal<=base", "2", "", -1, -2), "decode error "+s)
				continue
			}
			rec.Add(relBody("temporal<=base", "2", "", o.t.Score(), o.b.Score()), "vector="+s)
			atomic.AddInt64(&vectors, 1)
		}
		// Target Distribution None => 0, every temporal pattern x CDP x CR x IR x AR, by assignment
		cA := v2Carrier(false, true)
		cT := v2Carrier(true, true)
		for ti := -1; ti < nt2; ti++ {
			em := cA
			if ti >= 0 {
				em = cT
				v2SetFromIndex(&v, 6, 9, ti)
			}
			v[10] = 0 // TD:N
			for k := 0; k < 6*4*4*4; k++ {
				v[9] = uint8(k % 6)
				v[11] = uint8(k / 6 % 4)
				v[12] = uint8(k / 24 % 4)
				v[13] = uint8(k / 96 % 4)
				for i := 0; i < v2N; i++ {
					v2SetField(em, i, v2Defs[i].Codes[v[i]].C)
				}
				rec.Add(relBody("TD:N=>0", "2", "", em.Score(), 0), "assign "+v2String(&v, ti >= 0, true))
			}
			atomic.AddInt64(&vectors, 384)
		}
	})
	_ = m2.NewBase
	all := NewRecorder()
	for _, r := range recs {
		all.Merge(r)
	}
	s := all.Flush(flagOut, "rel13", 2)
	s.Extra = map[string]any{"vectors": vectors}
	printSummary(s)
}

func init() {
	register("rel13", cmdRel13)
	register("v3reportscores", cmdV3ReportScores)
}
