package main

import (
	"encoding/json"
	"flag"
	"fmt"
	"math"
	"reflect"
	"runtime"
	"strings"

	m3 "github.com/goark/go-cvss/v3/metric"
	"github.com/goark/go-cvss/v3/report"
	"golang.org/x/text/language"
)

var langTags = map[string]language.Tag{
	"en": language.English, "ja": language.Japanese, "und": language.Und, "fr": language.French, "de": language.German,
	"zh": language.Chinese, "ko": language.Korean, "es": language.Spanish, "ru": language.Russian, "ar": language.Arabic,
	// tags whose LANGUAGE is neither English nor Japanese although region / script point elsewhere
	"und-JP": language.MustParse("und-JP"), "und-Jpan": language.MustParse("und-Jpan"), "und-Hira": language.MustParse("und-Hira"),
	"und-US": language.MustParse("und-US"), "und-Latn-JP": language.MustParse("und-Latn-JP"), "fr-JP": language.MustParse("fr-JP"),
	"zh-Hant-JP": language.MustParse("zh-Hant-JP"), "ko-KR": language.MustParse("ko-KR"), "pt-BR": language.MustParse("pt-BR"),
	"de-CH": language.MustParse("de-CH"), "fr-CA": language.MustParse("fr-CA"), "mul": language.MustParse("mul"),
	"tlh": language.MustParse("tlh"), "zh-Hans-US": language.MustParse("zh-Hans-US"), "jv": language.MustParse("jv"), "enm": language.MustParse("enm"),
	// languages with a three-letter code whose first two letters spell "ja" / "en" (Jamaican Creole, Jara, a Japonic language
	// other than Japanese, Enga, Middle English with a region): cutting a tag to two characters turns them into ja / en
	"jam": language.MustParse("jam"), "jam-JM": language.MustParse("jam-JM"), "jaa": language.MustParse("jaa"), "jpx": language.MustParse("jpx"),
	"enq": language.MustParse("enq"), "enm-GB": language.MustParse("enm-GB"), "jam-Latn": language.MustParse("jam-Latn"),
	// "ja" / "en" spelled by a subtag that is not the language: script Jamo, private-use subtags
	"ko-Jamo": language.MustParse("ko-Jamo"), "fr-x-ja": language.MustParse("fr-x-ja"), "de-x-en": language.MustParse("de-x-en"),
}

// regional variants of English / Japanese: their names are unspecified (not validated), but using
// them must not influence what later reports in "en" / "ja" show
var regionalTags = func() []language.Tag {
	out := []language.Tag{}
	for _, s := range []string{"ja-JP", "ja-Latn", "en-GB", "en-US", "ja-JP-u-ca-japanese", "en-001", "ja-US", "ja-BR", "ja-Jpan", "ja-Jpan-JP",
		"ja-x-priv", "ja-u-ca-japanese", "ja-Latn-hepburn", "ja-KR", "en-x-priv", "en-Latn", "en-u-nu-latn", "en-JP", "en-Dsrt", "en-150", "ja-001"} {
		out = append(out, language.Make(s))
	}
	return out
}()

var severityConsts = []codeConst{{"None", int(m3.SeverityNone)}, {"Low", int(m3.SeverityLow)}, {"Medium", int(m3.SeverityMedium)},
	{"High", int(m3.SeverityHigh)}, {"Critical", int(m3.SeverityCritical)}}

// C18: the whole display-name table: every title and value-name function x enumeration
// integers -2..8 x language tags, one aggregated event per (language, metric)
type mnamesEvent struct {
	K        string            `json:"k"`
	Lang     string            `json:"lang"`
	M        string            `json:"m"`
	Title    string            `json:"title"`
	TitleEn  string            `json:"title_en"`
	Vals     map[string]string `json:"vals"`
	ValsEn   map[string]string `json:"vals_en"`
	Oor      []string          `json:"oor"` // names of the unknown value and of integers that are no constant
	OorEn    []string          `json:"oor_en"`
	UnkRef   string            `json:"unk_ref"` // the name AttackVector gives its unknown value in this language
	BaseVals map[string]string `json:"base_vals"`
	// what the same functions returned at the very beginning of the process, before any other language
	// tag (in particular a regional variant of en / ja) had been used
	FirstTitle string            `json:"first_title"`
	FirstVals  map[string]string `json:"first_vals"`
}

func valueTable(i int, tag language.Tag) (map[string]string, []string) {
	vals := map[string]string{}
	oor := []string{}
	var consts []codeConst
	if i < len(v3Defs) {
		consts = v3Defs[i].Codes
	} else {
		consts = severityConsts
	}
	cs := []int{}
	for c := -2; c <= 8; c++ {
		cs = append(cs, c)
	}
	// values congruent to a defined one modulo 2^8, 2^16, 2^32: still out of range
	for c := 0; c <= 6; c++ {
		cs = append(cs, c+256, c-256, c+65536, c+(1<<32), c-(1<<32))
	}
	cs = append(cs, math.MaxInt64, math.MinInt64)
	for _, c := range cs {
		name := asciiSafe(nameMetas[i].ValueOf(c, tag))
		sym := ""
		for _, cc := range consts {
			if cc.C == c {
				sym = cc.Code
			}
		}
		if sym != "" {
			vals[sym] = name
		} else {
			oor = append(oor, name)
		}
	}
	return vals, oor
}

func cmdNames(args []string) {
	fs := flag.NewFlagSet("names", flag.ExitOnError)
	commonFlags(fs)
	fs.Parse(args)
	rec := NewRecorder()
	// pass 1: English and Japanese tables read in a process that has not used any other tag yet
	type firstT struct {
		title string
		vals  map[string]string
	}
	first := map[string]firstT{}
	for _, ln := range []string{"ja", "en"} {
		for i, nm := range nameMetas {
			v, _ := valueTable(i, langTags[ln])
			first[ln+"|"+nm.Name] = firstT{asciiSafe(nm.Title(langTags[ln])), v}
		}
	}
	// regional variants of en / ja are asked next: unspecified themselves, they must not change what follows
	for _, tag := range regionalTags {
		for i, nm := range nameMetas {
			nm.Title(tag)
			nm.ValueOf(i%4, tag)
		}
	}
	modOf := map[int]int{14: 0, 15: 1, 16: 2, 17: 3, 18: 4, 19: 5, 20: 6, 21: 7}
	calls := 0
	for lname, tag := range langTags {
		for i, nm := range nameMetas {
			ev := mnamesEvent{K: "mnames", Lang: lname, M: nm.Name, Title: asciiSafe(nm.Title(tag)), TitleEn: asciiSafe(nm.Title(language.English)),
				UnkRef: asciiSafe(nameMetas[0].ValueOf(0, tag)), BaseVals: map[string]string{}}
			ev.Vals, ev.Oor = valueTable(i, tag)
			ev.ValsEn, ev.OorEn = valueTable(i, language.English)
			if b, ok := modOf[i]; ok {
				ev.BaseVals, _ = valueTable(b, tag)
			}
			ev.FirstTitle, ev.FirstVals = ev.Title, ev.Vals
			if f, ok := first[lname+"|"+nm.Name]; ok {
				ev.FirstTitle, ev.FirstVals = f.title, f.vals
			}
			calls += 24
			rec.Add(evBody(ev), "names."+nm.Name)
		}
		for _, g := range groupTitles {
			for _, x := range []struct {
				n string
				f func(language.Tag) string
			}{{"group:" + g.Name, g.Title}, {"groupvalue:" + g.Name, g.Value}} {
				ev := mnamesEvent{K: "mnames", Lang: lname, M: x.n, Title: asciiSafe(x.f(tag)), TitleEn: asciiSafe(x.f(language.English)),
					Vals: map[string]string{}, ValsEn: map[string]string{}, Oor: []string{}, OorEn: []string{},
					UnkRef: asciiSafe(nameMetas[0].ValueOf(0, tag)), BaseVals: map[string]string{}, FirstVals: map[string]string{}}
				ev.FirstTitle = ev.Title
				calls += 2
				rec.Add(evBody(ev), "names."+x.n)
			}
		}
	}
	s := rec.Flush(flagOut, "names", 1)
	s.Extra = map[string]any{"function_calls": calls, "languages": len(langTags)}
	printSummary(s)
}

// flatten the exported string fields of a report: own fields by name, embedded reports
// by path; "Vector", "SeverityName", "SeverityValue" without path are what a template (and
// FieldByName) sees: the shallowest one.
func flattenReport(v reflect.Value, prefix string, out map[string]string) {
	if v.Kind() == reflect.Ptr {
		if v.IsNil() {
			return
		}
		v = v.Elem()
	}
	t := v.Type()
	for i := 0; i < t.NumField(); i++ {
		f := t.Field(i)
		if f.Type.Kind() == reflect.String {
			out[prefix+f.Name] = asciiSafe(v.Field(i).String())
		} else if f.Anonymous {
			flattenReport(v.Field(i), prefix+f.Name+".", out)
		}
	}
}

func promoted(v reflect.Value, names []string, out map[string]string) {
	if v.Kind() == reflect.Ptr {
		v = v.Elem()
	}
	for _, n := range names {
		f := v.FieldByName(n)
		if f.IsValid() && f.Kind() == reflect.String {
			out["^"+n] = asciiSafe(f.String())
		}
	}
}

type lvlObs struct {
	Enc string `json:"enc"`
	Sc  int    `json:"sc"`
	Sev string `json:"sev"` // localized name of this level's severity
}

type repEvent struct {
	K     string                       `json:"k"`
	Lvl   string                       `json:"lvl"`
	Lang  string                       `json:"lang"`
	S     string                       `json:"s"`
	Ver   string                       `json:"ver"`
	Obs   map[string]lvlObs            `json:"obs"`
	Names map[string]map[string]string `json:"names"` // metric -> {t: title, v: value name of the object's field}
	Rep   map[string]string            `json:"rep"`
}

func buildRepEvent(lvl byte, lname string, s string) *repEvent {
	tag := langTags[lname]
	o, err := v3Decode(lvl, s)
	if err != nil {
		return nil
	}
	ev := &repEvent{K: "rep", Lvl: string(lvl), Lang: lname, S: asciiSafe(s), Ver: v3VerLabel(o.b.Ver), Obs: map[string]lvlObs{},
		Names: map[string]map[string]string{}, Rep: map[string]string{}}
	sevName := func(sv m3.Severity) string { return asciiSafe(nameMetas[22].ValueOf(int(sv), tag)) }
	enc, _ := o.b.Encode()
	ev.Obs["B"] = lvlObs{asciiSafe(enc), tenthOf(o.b.Score()), sevName(o.b.Severity())}
	upto := 8
	var rep any
	opt := report.WithOptionsLanguage(tag)
	if lvl != 'B' {
		enc, _ = o.t.Encode()
		ev.Obs["T"] = lvlObs{asciiSafe(enc), tenthOf(o.t.Score()), sevName(o.t.Severity())}
		upto = 11
	}
	if lvl == 'E' {
		enc, _ = o.e.Encode()
		ev.Obs["E"] = lvlObs{asciiSafe(enc), tenthOf(o.e.Score()), sevName(o.e.Severity())}
		upto = 22
	}
	// the language is given by one option or, for a share of the reports, by several stacked ones of which the last
	// decides (an earlier option of another language must leave no trace)
	opts := []report.ReportOptionsFunc{opt}
	switch h := len(s) + len(lname); h % 5 {
	case 4:
		// the options come from a longer list of which a shorter prefix was used for another report before: constructors
		// must not write into the caller's list
		if lvl != 'B' {
			all := make([]report.ReportOptionsFunc, 0, 4)
			all = append(all, report.WithOptionsLanguage(langTags["ja"]), opt)
			if lvl == 'T' {
				report.NewTemporal(o.t, all[:1]...)
			} else {
				report.NewEnvironmental(o.e, all[:1]...)
			}
			opts = all
		}
	case 1:
		opts = []report.ReportOptionsFunc{report.WithOptionsLanguage(langTags["ja"]), opt}
	case 2:
		opts = []report.ReportOptionsFunc{report.WithOptionsLanguage(langTags["fr"]), report.WithOptionsLanguage(langTags["ja"]), opt}
	case 3:
		opts = []report.ReportOptionsFunc{report.WithOptionsLanguage(langTags["en"]), opt, opt}
	}
	switch lvl {
	case 'B':
		rep = report.NewBase(o.b, opts...)
	case 'T':
		rep = report.NewTemporal(o.t, opts...)
	default:
		rep = report.NewEnvironmental(o.e, opts...)
	}
	for i := 0; i < upto; i++ {
		var c int
		switch lvl {
		case 'B':
			c = v3GetBaseField(o.b, i)
		case 'T':
			c = v3GetTempField(o.t, i)
		default:
			c = v3GetEnvField(o.e, i)
		}
		ev.Names[v3Defs[i].Name] = map[string]string{"t": asciiSafe(nameMetas[i].Title(tag)), "v": asciiSafe(nameMetas[i].ValueOf(c, tag))}
	}
	ev.Names["Severity"] = map[string]string{"t": asciiSafe(nameMetas[22].Title(tag)), "v": ""}
	for _, g := range groupTitles {
		ev.Names["group:"+g.Name] = map[string]string{"t": asciiSafe(g.Title(tag)), "v": asciiSafe(g.Value(tag))}
	}
	rv := reflect.ValueOf(rep)
	flattenReport(rv, "", ev.Rep)
	promoted(rv, []string{"Version", "Vector", "SeverityName", "SeverityValue", "BaseScore", "TemporalScore", "AVName", "AVValue", "EName", "EValue"}, ev.Rep)
	return ev
}

// C17: reports of decoded vectors in several languages, every exported field recorded
func cmdReport(args []string) {
	fs := flag.NewFlagSet("report", flag.ExitOnError)
	commonFlags(fs)
	n := fs.Int("n", 10000, "seeded random temporal / environmental vectors")
	fs.Parse(args)
	workers := runtime.NumCPU()
	recs := make([]*Recorder, workers)
	for i := range recs {
		recs[i] = NewRecorder()
	}
	langs := []string{"en", "ja", "und", "fr", "de", "zh", "und-JP", "fr-CA", "ko-KR", "zh-Hant-JP", "jam", "enq", "jam-JM", "jaa", "enm-GB", "ko-Jamo", "fr-x-ja"}
	nb := v3BaseCount()
	// prologue: reports in regional variants of en / ja first (history: they must not poison later ones)
	if em, err := m3.NewEnvironmental().Decode("CVSS:3.1/AV:A/AC:H/PR:L/UI:N/S:C/C:L/I:H/A:L/E:P/RL:O/RC:U/CR:L/IR:M/AR:L/MAV:P/MAC:L/MPR:N/MUI:R/MS:C/MC:H/MI:H/MA:H"); err == nil {
		for _, tag := range regionalTags {
			report.NewEnvironmental(em, report.WithOptionsLanguage(tag))
			report.NewTemporal(em.TemporalMetrics(), report.WithOptionsLanguage(tag))
			report.NewBase(em.BaseMetrics(), report.WithOptionsLanguage(tag))
		}
	}
	parallelFor(nb*2, workers, func(w, i int) {
		var v v3Vec
		v3SetFromIndex(&v, 0, v3NBase, i/2)
		s := v3Join(v3Versions[i%2].Label, v3Tokens(&v, 8, 0))
		for _, ln := range []string{"en", "ja", langs[2+i%(len(langs)-2)]} {
			if ev := buildRepEvent('B', ln, s); ev != nil {
				recs[w].Add(evBody(ev), "report.NewBase")
			}
		}
		// the same vector (nothing optional written) as a temporal and as an environmental report
		for k, lvl := range []byte{'T', 'E'} {
			if ev := buildRepEvent(lvl, []string{"en", "ja"}[(i+k)%2], s); ev != nil {
				recs[w].Add(evBody(ev), "report.New* on a base-only vector")
			}
		}
	})
	// exactly ONE optional metric defined (every metric, every defined value), at both higher levels: a report that
	// takes a short cut for "nothing defined" must notice the one that is
	{
		k := 0
		for i := 8; i < v3N; i++ {
			for c := 1; c < len(v3Defs[i].Codes); c++ {
				var v v3Vec
				v3SetFromIndex(&v, 0, v3NBase, (k*37+5)%nb)
				v[i] = uint8(c)
				for _, lvl := range []byte{'T', 'E'} {
					if lvl == 'T' && i >= 11 {
						continue
					}
					upto := map[byte]int{'T': 11, 'E': 22}[lvl]
					for _, omit := range []uint32{xMask(&v, 8, upto), 0} {
						s := v3Join(v3Versions[k%2].Label, v3Tokens(&v, upto, omit))
						for _, ln := range []string{"en", "ja"} {
							if ev := buildRepEvent(lvl, ln, s); ev != nil {
								recs[0].Add(evBody(ev), "report.New* with exactly one optional metric defined")
							}
						}
					}
				}
				k++
			}
		}
	}
	parallelFor(*n, workers, func(w, i int) {
		rng := newRand(8000 + i)
		// neighbouring metrics differ wherever their code sets allow, so that a field wired
		// to its neighbour shows
		var v v3Vec
		for j := 0; j < v3N; j++ {
			v[j] = uint8(rng.Intn(len(v3Defs[j].Codes)))
		}
		for j := 1; j < v3N; j++ {
			for tries := 0; tries < 4 && v3Defs[j].Codes[v[j]].Code == v3Defs[j-1].Codes[v[j-1]].Code; tries++ {
				v[j] = uint8(rng.Intn(len(v3Defs[j].Codes)))
			}
		}
		lvl := byte('T')
		upto := 11
		if i%2 == 0 {
			lvl, upto = 'E', 22
		}
		toks := v3Tokens(&v, upto, xMask(&v, 8, upto)&uint32(rng.Int63()))
		s := v3Join(v3Versions[rng.Intn(2)].Label, permuteMaybe(rng, toks))
		if ev := buildRepEvent(lvl, langs[(i/2)%len(langs)], s); ev != nil {
			recs[w].Add(evBody(ev), "report.New*")
		}
	})
	all := NewRecorder()
	for _, r := range recs {
		all.Merge(r)
	}
	s := all.Flush(flagOut, "report", flagChunks)
	printSummary(s)
}

var _ = json.Marshal
var _ = fmt.Sprintf
var _ = strings.Join

func init() {
	register("names", cmdNames)
	register("report", cmdReport)
}
