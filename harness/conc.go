package main

import (
	"bufio"
	"encoding/json"
	"flag"
	"fmt"
	"hash/fnv"
	"io"
	"os"
	"runtime"
	"sort"
	"strings"
	"sync"
	"time"

	m2 "github.com/goark/go-cvss/v2/metric"
	m3 "github.com/goark/go-cvss/v3/metric"
	"github.com/goark/go-cvss/v3/report"
)

// ---------------------------------------------------------------------------
// gate: replays one TLC-generated schedule of decodeOne entries of two goroutines.
// A goroutine holds the baton from the moment it passes a gate until it arrives at its next
// gate (or finishes), so the steps execute one at a time in exactly the scheduled order.
// ---------------------------------------------------------------------------
type gate struct {
	mu      sync.Mutex
	cond    *sync.Cond
	sched   []int
	turn    int
	holder  int // goroutine holding the baton, 0 = nobody
	passed  map[int]int
	k       int
	owner   map[any]int // receiver pointer -> goroutine
	sites   map[int]string
	aborted bool
}

func newGate(sched []int, k int) *gate {
	g := &gate{sched: sched, k: k, passed: map[int]int{}, owner: map[any]int{}, sites: map[int]string{}}
	g.cond = sync.NewCond(&g.mu)
	return g
}

func (g *gate) hook(site string, recv any, arg string) {
	g.mu.Lock()
	defer g.mu.Unlock()
	id, ok := g.owner[recv]
	if !ok || g.sites[id] != site || g.aborted {
		return
	}
	if g.holder == id { // arriving at the next gate: give the baton back
		g.holder = 0
		g.cond.Broadcast()
	}
	if g.passed[id] >= g.k {
		return // free running after K gated steps
	}
	deadline := time.Now().Add(3 * time.Second)
	for !(g.holder == 0 && g.turn < len(g.sched) && g.sched[g.turn] == id) {
		if g.aborted || time.Now().After(deadline) {
			g.aborted = true
			g.cond.Broadcast()
			return
		}
		waitCond(g.cond, 50*time.Millisecond)
	}
	g.turn++
	g.passed[id]++
	g.holder = id
}

func (g *gate) finished(id int) {
	g.mu.Lock()
	if g.holder == id {
		g.holder = 0
	}
	// a goroutine that ends early (error) must not block the other: drop its remaining turns
	rest := g.sched[:g.turn]
	for _, x := range g.sched[g.turn:] {
		if x != id {
			rest = append(rest, x)
		}
	}
	g.sched = rest
	g.cond.Broadcast()
	g.mu.Unlock()
}

func waitCond(c *sync.Cond, d time.Duration) {
	t := time.AfterFunc(d, c.Broadcast)
	c.Wait()
	t.Stop()
}

type job struct {
	fam string
	lvl byte
	s   string
}

var siteNames = map[string]string{"v3B": "v3.base.decodeOne", "v3T": "v3.temporal.decodeOne", "v3E": "v3.environmental.decodeOne",
	"v2B": "v2.base.decodeOne", "v2T": "v2.temporal.decodeOne", "v2E": "v2.environmental.decodeOne"}

// outcome of one decode + queries, as one comparable string
func outcome(h *handle, err error) string {
	if err != nil {
		// the error's full rendering (message, causes and context) belongs to the result: it must be the one the same call
		// gives sequentially
		hs := fnv.New64a()
		fmt.Fprintf(hs, "%s|%+v", err.Error(), err)
		return fmt.Sprintf("error %s text=%016x", strings.Join(sentinelsOf(err), ","), hs.Sum64())
	}
	sn := h.snapshot()
	var sb strings.Builder
	fmt.Fprintf(&sb, "ok ver=%s f=%s names=%s", sn.Ver, sn.F, sn.Names)
	for _, q := range []string{"Encode", "Score", "Severity", "GetError"} {
		r := h.query(q)
		fmt.Fprintf(&sb, " %s=%v/%s/%d/%s", q, r.Err, r.Str, r.Sc, r.Sev)
	}
	return sb.String()
}

func runJob(j job, g *gate, id int) string {
	h := newHandle(j.fam, j.lvl, true)
	if g != nil {
		g.mu.Lock()
		switch j.fam + string(j.lvl) {
		case "v3B":
			g.owner[h.b3] = id
		case "v3T":
			g.owner[h.t3] = id
		case "v3E":
			g.owner[h.e3] = id
		case "v2B":
			g.owner[h.b2] = id
		case "v2T":
			g.owner[h.t2] = id
		case "v2E":
			g.owner[h.e2] = id
		}
		g.sites[id] = siteNames[j.fam+string(j.lvl)]
		g.mu.Unlock()
	}
	x, err := h.decode(j.s)
	if g != nil {
		g.finished(id)
	}
	return outcome(x, err)
}

func setHook(f func(string, any, string)) {
	m3.VerifHook = f
	m2.VerifHook = f
}

// language tags in a fixed order (map iteration order is random)
var langKeys = func() []string {
	ks := []string{}
	for k := range langTags {
		ks = append(ks, k)
	}
	sort.Strings(ks)
	return ks
}()

var concJobs = []job{
	{"v3", 'T', "CVSS:3.1/AV:N/AC:L/PR:N/UI:R/S:C/C:H/I:L/A:N/E:F/RL:O/RC:C"},
	{"v3", 'T', "CVSS:3.0/RC:R/A:H/I:H/C:L/S:U/UI:N/PR:L/AC:H/AV:P"},
	{"v3", 'T', "CVSS:3.1/AV:N/AC:L/AV:N/PR:N/UI:R/S:C/C:H/I:L/A:N"},
	{"v3", 'E', "CVSS:3.1/AV:A/AC:H/PR:H/UI:N/S:U/C:N/I:N/A:L/MS:C/CR:H/MAV:N/E:U"},
	{"v3", 'E', "CVSS:3.0/MAV:N/AV:A/MAV:L/AC:H/PR:H/UI:N/S:U/C:N/I:N/A:L"},
	{"v3", 'B', "CVSS:3.1/AV:L/AC:L/PR:H/UI:N/S:U/C:H/I:L/A:L"},
	{"v3", 'B', "CVSS:3.1/AV:L/AC:Z/PR:H/UI:N/S:U/C:H/I:L/A:L"},
	{"v2", 'E', "AV:N/AC:L/Au:N/C:C/I:C/A:C/E:F/RL:W/RC:C/CDP:H/TD:H/CR:M/IR:M/AR:H"},
	{"v2", 'T', "AV:L/AC:H/Au:M/C:N/I:N/A:P/E:POC/RL:OF/RC:UC"},
	{"v2", 'T', "AV:L/AC:H/AC:H/Au:M/C:N/I:N/A:P"},
	{"v2", 'B', "AV:N/AC:L/Au:N/C:P/I:P/A:C"},
	// shared objects whose levels disagree as much as they can: requirements that change the adjusted impact (v2), a Modified
	// Scope different from the Scope with scope-dependent Privileges Required and Modified metrics that override (v3)
	{"v2", 'E', "AV:N/AC:L/Au:N/C:P/I:P/A:C/E:F/RL:OF/RC:C/CDP:LM/TD:H/CR:H/IR:L/AR:M"},
	{"v2", 'E', "AV:L/AC:M/Au:S/C:C/I:N/A:P/CDP:ND/TD:M/CR:L/IR:H/AR:H"},
	{"v3", 'E', "CVSS:3.1/AV:N/AC:L/PR:H/UI:N/S:U/C:H/I:L/A:N/MS:C"},
	{"v3", 'E', "CVSS:3.0/AV:L/AC:H/PR:L/UI:R/S:C/C:L/I:H/A:H/E:P/RL:W/RC:R/CR:L/IR:H/AR:M/MAV:N/MPR:N/MS:U/MC:H/MA:N"},
	{"v3", 'T', "CVSS:3.0/AV:N/AC:L/PR:N/UI:N/S:C/C:H/I:H/A:H/E:U/RL:O/RC:U"},
	// every error path of every decoder kind runs concurrently too: well-formed but incomplete vectors (the error comes from
	// the closing completeness check), unsupported metrics (the deferred error), other versions, v2 group and order defects
	{"v3", 'B', "CVSS:3.1/AV:N/AC:L/PR:N/UI:N/S:U/C:H/I:H"},
	{"v3", 'B', "CVSS:3.0/AC:H/PR:L/UI:R/S:C/C:L/I:N/A:L"},
	{"v3", 'B', "CVSS:3.1/AV:N/AC:L/PR:N/UI:N/S:U/C:H/I:H/A:H/E:F"},
	{"v3", 'T', "CVSS:3.1/AV:N/AC:L/PR:N/UI:N/S:U/C:H/A:H/E:F"},
	{"v3", 'T', "CVSS:3.0/AV:N/AC:L/PR:N/UI:N/S:U/C:H/I:H/A:H/MAV:N"},
	{"v3", 'E', "CVSS:3.1/AC:L/PR:N/UI:N/S:U/C:H/I:H/A:H/CR:H"},
	{"v3", 'E', "CVSS:4.0/AV:N/AC:L/PR:N/UI:N/S:U/C:H/I:H/A:H"},
	{"v3", 'E', "CVSS:3.1/AV:N/AC:L/PR:N/UI:N/S:U/C:H/I:H/A:H/XX:Y"},
	{"v2", 'B', "AV:N/AC:L/Au:N/C:P/I:P"},
	{"v2", 'T', "AV:N/AC:L/Au:N/C:P/I:P/A:C/E:H"},
	{"v2", 'E', "AV:N/AC:L/Au:N/C:P/I:P/A:C/CDP:H/TD:H"},
	{"v2", 'E', "AV:N/AC:L/Au:N/C:P/I:P/A:C/CDP:H/TD:H/CR:M/IR:M/AR:H/E:F/RL:OF/RC:C"},
	{"v2", 'T', "AC:L/AV:N/Au:N/C:P/I:P/A:C"},
}

// an invalid value code for every optional metric (the miss path of every code lookup runs concurrently with the hits)
func init() {
	b3 := "CVSS:3.1/AV:N/AC:L/PR:N/UI:N/S:U/C:H/I:H/A:H"
	for _, n := range []string{"E", "RL", "RC"} {
		concJobs = append(concJobs, job{"v3", 'T', b3 + "/" + n + ":Q"}, job{"v3", 'E', b3 + "/" + n + ":Q/MAV:A"})
	}
	for _, n := range []string{"CR", "IR", "AR", "MAV", "MAC", "MPR", "MUI", "MS", "MC", "MI", "MA"} {
		concJobs = append(concJobs, job{"v3", 'E', b3 + "/E:F/" + n + ":Q"})
	}
	b2 := "AV:N/AC:L/Au:N/C:P/I:P/A:C"
	for _, t := range []string{"/E:Q/RL:OF/RC:C", "/E:F/RL:Q/RC:C", "/E:F/RL:OF/RC:Q"} {
		concJobs = append(concJobs, job{"v2", 'T', b2 + t})
	}
	for _, t := range []string{"/CDP:Q/TD:H/CR:M/IR:M/AR:H", "/CDP:H/TD:Q/CR:M/IR:M/AR:H", "/CDP:H/TD:H/CR:Q/IR:M/AR:H", "/CDP:H/TD:H/CR:M/IR:Q/AR:H", "/CDP:H/TD:H/CR:M/IR:M/AR:Q"} {
		concJobs = append(concJobs, job{"v2", 'E', b2 + t})
	}
	// and a valid vector that carries every Modified metric, to be decoded while those fail
	concJobs = append(concJobs, job{"v3", 'E', "CVSS:3.1/AV:N/AC:L/PR:N/UI:N/S:U/C:H/I:H/A:H/E:F/RL:W/RC:R/CR:M/IR:H/AR:L/MAV:A/MAC:H/MPR:L/MUI:R/MS:C/MC:L/MI:H/MA:N"})
}

// conc-replay: every schedule x seeded pairs of jobs, gated through the decodeOne hook
func cmdConcReplay(args []string) {
	fs := flag.NewFlagSet("conc-replay", flag.ExitOnError)
	commonFlags(fs)
	in := fs.String("in", "", "NDJSON schedules {sched:[1,2,...]} from MC_Sched")
	k := fs.Int("k", 4, "gated steps per goroutine")
	npairs := fs.Int("pairs", 12, "job pairs per schedule")
	fs.Parse(args)
	var scheds [][]int
	f, err := os.Open(*in)
	if err != nil {
		die("%v", err)
	}
	sc := bufio.NewScanner(f)
	for sc.Scan() {
		var r struct {
			Sched []int `json:"sched"`
		}
		if json.Unmarshal(sc.Bytes(), &r) == nil && len(r.Sched) == 2**k {
			scheds = append(scheds, r.Sched)
		}
	}
	f.Close()
	// no warm-up: nothing of the library has run in this process before the first replay (a lazily
	// initialised table would be written by the replayed goroutines); the sequential reference is
	// computed afterwards
	rec := NewRecorder()
	rng := newRand(4400)
	gated, ungated := 0, 0
	type pending struct {
		sched []int
		gated bool
		a, b  int
		res   []string
		src   string
	}
	var pend []pending
	for si, sched := range scheds {
		for p := 0; p < *npairs; p++ {
			a, b := rng.Intn(len(concJobs)), rng.Intn(len(concJobs))
			g := newGate(append([]int(nil), sched...), *k)
			setHook(g.hook)
			var wg sync.WaitGroup
			res := make([]string, 3)
			for id, ji := range map[int]int{1: a, 2: b} {
				wg.Add(1)
				go func(id, ji int) {
					defer wg.Done()
					defer func() {
						if r := recover(); r != nil {
							res[id] = fmt.Sprint("panic ", r)
							g.finished(id)
						}
					}()
					res[id] = runJob(concJobs[ji], g, id)
				}(id, ji)
			}
			wg.Wait()
			setHook(nil)
			if g.aborted {
				ungated++
			} else {
				gated++
			}
			pend = append(pend, pending{sched, !g.aborted, a, b, []string{asciiSafe(res[1]), asciiSafe(res[2])}, fmt.Sprintf("schedule %d pair %d", si, p)})
		}
	}
	seq := map[int]string{}
	for i, j := range concJobs {
		seq[i] = runJob(j, nil, 0)
	}
	type ev struct {
		K      string   `json:"k"`
		Sched  []int    `json:"sched"`
		Gated  bool     `json:"gated"`
		Jobs   []string `json:"jobs"`
		Res    []string `json:"res"`
		SeqRes []string `json:"seq"`
	}
	for _, p := range pend {
		rec.Add(evBody(ev{"sched", p.sched, p.gated, []string{concJobs[p.a].s, concJobs[p.b].s}, p.res,
			[]string{asciiSafe(seq[p.a]), asciiSafe(seq[p.b])}}), p.src)
	}
	s := rec.Flush(flagOut, "conc-replay", 2)
	s.Extra = map[string]any{"schedules": len(scheds), "replays_gated": gated, "replays_ungated": ungated}
	printSummary(s)
}

// conc-stress: many goroutines, seeded operation mixes on own and shared objects; meant to be
// built with -race.  Every result is compared with the sequential result of the same operation.
func cmdConcStress(args []string) {
	fs := flag.NewFlagSet("conc-stress", flag.ExitOnError)
	commonFlags(fs)
	ng := fs.Int("g", 32, "goroutines")
	nops := fs.Int("ops", 400, "operations per goroutine")
	procs := fs.Int("procs", 0, "GOMAXPROCS (0 = default)")
	fs.Parse(args)
	if *procs > 0 {
		runtime.GOMAXPROCS(*procs)
	}
	// shared, already decoded objects (only queried)
	shared := []*handle{}
	for _, j := range concJobs {
		h, err := newHandle(j.fam, j.lvl, true).decode(j.s)
		if err == nil {
			shared = append(shared, h)
		}
	}
	// the last three define a nested template of the SAME name with different bodies (and many rows between the
	// definition and its use): exports must not see each other's definitions
	rows := strings.Repeat("{{.AVName}}={{.AVValue}};", 40)
	tmpls := []string{"{{.Vector}} {{.BaseScore}} {{.SeverityValue}}", "{{if .AVValue}}{{.AVName}}={{.AVValue}}{{end}}", "{{.NoField}}", "{{.Vector",
		`{{define "sev"}}[{{.SeverityName}}: {{.SeverityValue}}]{{end}}` + rows + `{{template "sev" .}}`,
		`{{define "sev"}}<score {{.BaseScore}}>{{end}}` + rows + `{{template "sev" .}}`,
		`{{block "sev" .}}blk {{.Vector}}{{end}}` + rows + `{{template "sev" .}}`}
	type op struct {
		kind string
		a, b int
	}
	doOp := func(o op) string {
		switch o.kind {
		case "decode":
			j := concJobs[o.a]
			h, err := newHandle(j.fam, j.lvl, true).decode(j.s)
			return outcome(h, err)
		case "query":
			h := shared[o.a]
			q := []string{"Score", "Encode", "Severity", "GetError", "String"}[o.b%5]
			r := h.query(q)
			return fmt.Sprintf("%s=%v/%s/%d/%s", q, r.Err, r.Str, r.Sc, r.Sev)
		case "view":
			h := shared[o.a]
			if h.lvl == 'B' {
				return "n/a"
			}
			via := byte('B')
			if h.lvl == 'E' && o.b%2 == 1 {
				via = 'T'
			}
			q := []string{"Score", "Severity", "Encode"}[(o.b/2)%3]
			r := h.view(via).query(q)
			return fmt.Sprintf("%c.%s=%v/%s/%d/%s", via, q, r.Err, r.Str, r.Sc, r.Sev)
		case "report":
			h := shared[o.a]
			if h.fam != "v3" {
				return "n/a"
			}
			var ex exporter
			opt := report.WithOptionsLanguage(langTags[[]string{"en", "ja", "fr"}[o.b%3]])
			switch h.lvl {
			case 'B':
				ex = report.NewBase(h.b3, opt)
			case 'T':
				ex = report.NewTemporal(h.t3, opt)
			default:
				ex = report.NewEnvironmental(h.e3, opt)
			}
			var r io.Reader
			var err error
			if tt := tmpls[o.b%len(tmpls)]; (o.b/7)%2 == 1 {
				// through a reader that has no WriteTo method (the copy goes through a scratch buffer of the copier)
				r, err = ex.ExportWith(io.LimitReader(strings.NewReader(tt), int64(len(tt))))
			} else {
				r, err = ex.ExportWithString(tt)
			}
			if err != nil {
				return "error " + strings.Join(sentinelsOf(err), ",")
			}
			b, _ := io.ReadAll(r)
			return string(b)
		case "decode-new-name":
			// a vector with a metric name nobody has seen before in this process (anything keyed by names must not be
			// written while other goroutines decode)
			j := concJobs[o.a%len(concJobs)]
			base := "CVSS:3.1/AV:N/AC:L/PR:N/UI:N/S:U/C:H/I:H/A:H"
			if j.fam == "v2" {
				base = "AV:N/AC:L/Au:N/C:P/I:P/A:C"
			}
			h, err := newHandle(j.fam, j.lvl, true).decode(fmt.Sprintf("%s/Q%dW%d:H", base, o.a, o.b))
			out := outcome(h, err)
			if i := strings.Index(out, " text="); i >= 0 {
				out = out[:i] // the rendering names the unique token
			}
			return out
		case "fresh":
			// queries on a freshly constructed (invalid) object of every kind: error paths run concurrently too
			j := concJobs[o.a%len(concJobs)]
			h := newHandle(j.fam, j.lvl, true)
			q := []string{"Encode", "String", "GetError", "Score"}[o.b%4]
			r := h.query(q)
			return fmt.Sprintf("fresh %s=%v/%s/%d", q, r.Err, r.Str, r.Sc)
		case "names":
			nm := nameMetas[o.a%len(nameMetas)]
			t1, t2 := langTags[langKeys[o.b%len(langKeys)]], langTags[langKeys[(o.b/7)%len(langKeys)]]
			return nm.Title(t1) + "|" + nm.ValueOf(o.b%6, t2) + "|" + groupTitles[o.b%3].Title(t2)
		}
		return "?"
	}
	kinds := []string{"decode", "query", "query", "view", "report", "report", "names", "fresh", "decode-new-name"}
	progs := make([][]op, *ng)
	for g := range progs {
		rng := newRand(7700 + g)
		for i := 0; i < *nops; i++ {
			k := kinds[rng.Intn(len(kinds))]
			o := op{k, rng.Intn(len(shared)), rng.Intn(1000)}
			if k == "decode" {
				o.a = rng.Intn(len(concJobs))
			}
			progs[g] = append(progs[g], o)
		}
	}
	before := make([]snap, len(shared))
	for i, h := range shared {
		before[i] = h.snapshot()
	}
	tabBefore := tablesDigest()
	// concurrent run FIRST, without any warm-up of display names, reports or templates in this process (a table
	// filled on first use would be written during the concurrent phase); the sequential reference follows
	got := make([][]string, *ng)
	var wg sync.WaitGroup
	start := make(chan struct{})
	for g := range progs {
		wg.Add(1)
		go func(g int) {
			defer wg.Done()
			<-start
			out := make([]string, 0, len(progs[g]))
			for _, o := range progs[g] {
				func() {
					defer func() {
						if r := recover(); r != nil {
							out = append(out, fmt.Sprint("panic ", r))
						}
					}()
					out = append(out, doOp(o))
				}()
			}
			got[g] = out
		}(g)
	}
	close(start)
	wg.Wait()
	ref := make([][]string, *ng)
	for g := range progs {
		for _, o := range progs[g] {
			ref[g] = append(ref[g], doOp(o))
		}
	}
	rec := NewRecorder()
	type cev struct {
		K   string `json:"k"`
		G   int    `json:"g"`
		Seq int    `json:"seq"`
		Op  string `json:"op"`
		Res string `json:"res"`
		Ref string `json:"ref"`
	}
	for g := range progs {
		for i, o := range progs[g] {
			rec.Add(evBody(cev{"conc", g, i, fmt.Sprintf("%s(%d,%d)", o.kind, o.a, o.b), asciiSafe(got[g][i]), asciiSafe(ref[g][i])}), "stress")
		}
	}
	same := tabBefore == tablesDigest()
	for i, h := range shared {
		if h.snapshot() != before[i] {
			same = false
		}
	}
	type sev struct {
		K    string `json:"k"`
		Same bool   `json:"same"`
	}
	rec.Add(evBody(sev{"shared", same}), "shared objects and tables after the run")
	s := rec.Flush(flagOut, "conc-stress", 4)
	s.Extra = map[string]any{"goroutines": *ng, "ops_per_goroutine": *nops, "gomaxprocs": runtime.GOMAXPROCS(0)}
	printSummary(s)
}

func init() {
	register("conc-replay", cmdConcReplay)
	register("conc-stress", cmdConcStress)
}
