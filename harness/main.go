package main

import (
	"flag"
	"fmt"
	"os"
	"runtime"
)

type cmdFn func(args []string)

var commands = map[string]cmdFn{}

func register(name string, f cmdFn) { commands[name] = f }

var (
	flagOut    string
	flagChunks int
	flagTier   string
	flagPid    string
)

func commonFlags(fs *flag.FlagSet) {
	fs.StringVar(&flagOut, "out", ".", "output directory for trace chunks")
	fs.IntVar(&flagChunks, "chunks", runtime.NumCPU(), "number of trace chunks")
	fs.StringVar(&flagTier, "tier", "quick", "quick|thorough")
	fs.StringVar(&flagPid, "pid", "", "property id")
}

func quick() bool { return flagTier != "thorough" }

func main() {
	if len(os.Args) < 2 {
		fmt.Fprintln(os.Stderr, "usage: verifharness <command> [flags]")
		os.Exit(3)
	}
	f, ok := commands[os.Args[1]]
	if !ok {
		fmt.Fprintf(os.Stderr, "unknown command %q\n", os.Args[1])
		os.Exit(3)
	}
	f(os.Args[2:])
}
