package main

import (
	"bufio"
	"encoding/json"
	"errors"
	"flag"
	"fmt"
	"hash/fnv"
	"math/rand"
	"os"
	"runtime"
	"sort"
	"strings"
	"time"

	"github.com/goark/go-cvss/cvsserr"
	m2 "github.com/goark/go-cvss/v2/metric"
	m3 "github.com/goark/go-cvss/v3/metric"
)

var sentinelList = []struct {
	Name string
	Err  error
}{
	{"NullPointer", cvsserr.ErrNullPointer}, {"InvalidVector", cvsserr.ErrInvalidVector}, {"NotSupportVer", cvsserr.ErrNotSupportVer},
	{"NotSupportMetric", cvsserr.ErrNotSupportMetric}, {"InvalidTemplate", cvsserr.ErrInvalidTemplate}, {"SameMetric", cvsserr.ErrSameMetric},
	{"InvalidValue", cvsserr.ErrInvalidValue}, {"NoBaseMetrics", cvsserr.ErrNoBaseMetrics}, {"NoTemporalMetrics", cvsserr.ErrNoTemporalMetrics},
	{"NoEnvironmentalMetrics", cvsserr.ErrNoEnvironmentalMetrics}, {"Misordered", cvsserr.ErrMisordered},
}

func sentinelsOf(err error) []string {
	out := []string{}
	if err == nil {
		return out
	}
	for _, s := range sentinelList {
		if errors.Is(err, s.Err) {
			out = append(out, s.Name)
		}
	}
	return out
}

func unescape(s string) string {
	if !strings.Contains(s, `\x`) {
		return s
	}
	var sb strings.Builder
	for i := 0; i < len(s); i++ {
		if s[i] == '\\' && i+3 < len(s) && s[i+1] == 'x' {
			var b byte
			if _, err := fmt.Sscanf(s[i+2:i+4], "%02x", &b); err == nil {
				sb.WriteByte(b)
				i += 3
				continue
			}
		}
		sb.WriteByte(s[i])
	}
	return sb.String()
}

func tenthOf(f float64) int {
	t, ex, _ := obsScore(f)
	if !ex {
		return 99999
	}
	return t
}

// level view: what one level of an object reports
type view struct {
	Enc   string `json:"enc"`
	EncOk bool   `json:"encok"`
	Str   string `json:"str"`
	Sc    int    `json:"sc"`
	Sev   string `json:"sev"`
}

type decEvent struct {
	K     string            `json:"k"`
	Fam   string            `json:"fam"`
	Lvl   string            `json:"lvl"`
	S     string            `json:"s"`
	Ok    bool              `json:"ok"`
	Obj   bool              `json:"obj"`
	Panic bool              `json:"panic"`
	Sent  []string          `json:"sent"`
	Ver   string            `json:"ver,omitempty"`
	F     map[string]string `json:"f,omitempty"`
	F2    map[string]string `json:"f2,omitempty"` // the fields after all the queries, when they differ from F
	TEmp  *bool             `json:"tempEmpty,omitempty"`
	EEmp  *bool             `json:"envEmpty,omitempty"`
	Own   *view             `json:"own,omitempty"`   // the object's own level
	Views map[string]*view  `json:"views,omitempty"` // through BaseMetrics()/TemporalMetrics()
	Proj  map[string]*proj  `json:"proj,omitempty"`  // independent lower-level decode of the projection
	Re    *redec            `json:"re,omitempty"`    // decoding the encoding again
	Long  bool              `json:"long,omitempty"`  // input longer than 300 bytes (not reproduced in the trace)
	NilRx bool              `json:"nilrx,omitempty"` // decoded through a nil receiver
	Rep0  string            `json:"rep0,omitempty"`  // orders (C15): fields of the report built WITHOUT options
}

type proj struct {
	S  string `json:"s"`
	Ok bool   `json:"ok"`
	V  *view  `json:"v,omitempty"`
}

type redec struct {
	Ok  bool              `json:"ok"`
	F   map[string]string `json:"f,omitempty"`
	Own *view             `json:"own,omitempty"`
	Sc  map[string]int    `json:"sc,omitempty"`
}

type scorer interface {
	Score() float64
	Encode() (string, error)
	String() string
}

func mkView(o scorer, sev string) *view {
	enc, err := o.Encode()
	return &view{Enc: asciiSafe(enc), EncOk: err == nil, Str: asciiSafe(o.String()), Sc: tenthOf(o.Score()), Sev: sev}
}

var levelUpto = map[string]map[byte]int{"v3": {'B': 8, 'T': 11, 'E': 22}, "v2": {'B': 6, 'T': 9, 'E': 14}}

func namesUpto(fam string, lvl byte) map[string]bool {
	out := map[string]bool{}
	for i, d := range defsOf(fam) {
		if i < levelUpto[fam][lvl] {
			out[d.Name] = true
		}
	}
	return out
}

// projection of an accepted vector onto the metrics of the levels up to lvl (order kept)
func projectVector(fam string, lvl byte, s string) string {
	parts := strings.Split(s, "/")
	keep := []string{}
	names := namesUpto(fam, lvl)
	start := 0
	if fam == "v3" {
		keep = append(keep, parts[0])
		start = 1
	}
	for _, t := range parts[start:] {
		nv := strings.Split(t, ":")
		if len(nv) == 2 && nv[0] != "" && nv[1] != "" && names[nv[0]] {
			keep = append(keep, t)
		}
	}
	return strings.Join(keep, "/")
}

// decodeFull decodes s with the decoder of (fam, lvl) and projects everything observable.
// deep = also views, projections and the re-decode (only meaningful for accepted strings).
func decodeFull(fam string, lvl byte, raw string, deep bool) (ev *decEvent) {
	ev = &decEvent{K: "dec", Fam: fam, Lvl: string(lvl), S: asciiSafe(raw), Sent: []string{}}
	if len(raw) > 1500 {
		// too long for the trace: identified by length and hash; only panic / object-xor-error are judged
		h := fnv.New64a()
		h.Write([]byte(raw))
		ev.S = fmt.Sprintf("<%d bytes, fnv %016x>", len(raw), h.Sum64())
		ev.Long = true
	}
	defer func() {
		if r := recover(); r != nil {
			ev.Panic = true
			ev.Sent = []string{fmt.Sprintf("panic: %v", r)}
		}
	}()
	if fam == "v3" {
		o, err := v3Decode(lvl, raw)
		ev.Ok = err == nil
		ev.Sent = sentinelsOf(err)
		ev.Obj = (lvl == 'B' && o.b != nil) || (lvl == 'T' && o.t != nil) || (lvl == 'E' && o.e != nil)
		if !ev.Ok || !ev.Obj {
			return
		}
		ev.Ver = v3VerLabel(o.b.Ver)
		ev.F = v3FieldsOf(o, lvl)
		viewsFirst := deep && len(raw)%2 == 1 // vary the order in which the object and its views are queried
		if !viewsFirst {
			ev.Own = v3OwnView(o, lvl)
		}
		if deep {
			ev.Views = map[string]*view{}
			ev.Proj = map[string]*proj{}
			if lvl != 'B' {
				var bm *m3.Base
				if lvl == 'T' {
					bm = o.t.BaseMetrics()
				} else {
					bm = o.e.BaseMetrics()
				}
				ev.Views["B"] = mkView(bm, bm.Severity().String())
				ps := projectVector(fam, 'B', raw)
				p := &proj{S: asciiSafe(ps)}
				if po, err := v3Decode('B', ps); err == nil {
					p.Ok = true
					p.V = mkView(po.b, po.b.Severity().String())
				}
				ev.Proj["B"] = p
			}
			if lvl == 'E' {
				tm := o.e.TemporalMetrics()
				ev.Views["T"] = mkView(tm, tm.Severity().String())
				ps := projectVector(fam, 'T', raw)
				p := &proj{S: asciiSafe(ps)}
				if po, err := v3Decode('T', ps); err == nil {
					p.Ok = true
					p.V = mkView(po.t, po.t.Severity().String())
				}
				ev.Proj["T"] = p
			}
			if viewsFirst {
				ev.Own = v3OwnView(o, lvl)
			}
			ev.Re = &redec{}
			if ro, err := v3Decode(lvl, unescape(ev.Own.Enc)); err == nil {
				ev.Re.Ok = true
				ev.Re.F = v3FieldsOf(ro, lvl)
				ev.Re.Own = v3OwnView(ro, lvl)
			}
		}
		if f2 := v3FieldsOf(o, lvl); !sameFields(f2, ev.F) || v3VerLabel(o.b.Ver) != ev.Ver {
			f2["Ver"] = v3VerLabel(o.b.Ver)
			ev.F2 = f2
		}
		return
	}
	o, err := v2Decode(lvl, raw)
	ev.Ok = err == nil
	ev.Sent = sentinelsOf(err)
	ev.Obj = (lvl == 'B' && o.b != nil) || (lvl == 'T' && o.t != nil) || (lvl == 'E' && o.e != nil)
	if !ev.Ok || !ev.Obj {
		return
	}
	ev.F = v2FieldsOf(o, lvl)
	if lvl != 'B' {
		b := o.t.IsEmpty()
		ev.TEmp = &b
	}
	if lvl == 'E' {
		b := o.e.IsEmpty()
		ev.EEmp = &b
	}
	ev.Own = v2OwnView(o, lvl)
	if deep {
		ev.Views = map[string]*view{}
		ev.Proj = map[string]*proj{}
		if lvl != 'B' {
			var bm *m2.Base
			if lvl == 'T' {
				bm = o.t.BaseMetrics()
			} else {
				bm = o.e.BaseMetrics()
			}
			ev.Views["B"] = mkView(bm, bm.Severity().String())
			ps := projectVector(fam, 'B', raw)
			p := &proj{S: asciiSafe(ps)}
			if po, err := v2Decode('B', ps); err == nil {
				p.Ok = true
				p.V = mkView(po.b, po.b.Severity().String())
			}
			ev.Proj["B"] = p
		}
		if lvl == 'E' {
			tm := o.e.TemporalMetrics()
			ev.Views["T"] = mkView(tm, tm.Severity().String())
			ps := projectVector(fam, 'T', raw)
			p := &proj{S: asciiSafe(ps)}
			if po, err := v2Decode('T', ps); err == nil {
				p.Ok = true
				p.V = mkView(po.t, po.t.Severity().String())
			}
			ev.Proj["T"] = p
		}
		ev.Re = &redec{}
		if ro, err := v2Decode(lvl, unescape(ev.Own.Enc)); err == nil {
			ev.Re.Ok = true
			ev.Re.F = v2FieldsOf(ro, lvl)
			ev.Re.Own = v2OwnView(ro, lvl)
		}
	}
	if f2 := v2FieldsOf(o, lvl); !sameFields(f2, ev.F) {
		ev.F2 = f2
	}
	return
}

func sameFields(a, b map[string]string) bool {
	if len(a) != len(b) {
		return false
	}
	for k, v := range a {
		if b[k] != v {
			return false
		}
	}
	return true
}

// decodeWatched: decodeFull with the C12 watchdog: a call on an input of at most 1 KiB that has not
// returned after 10 s counts as "did not return" (recorded like a panic; the stuck goroutine is abandoned)
func decodeWatched(fam string, lvl byte, raw string, deep bool) *decEvent {
	if len(raw) > 1024 {
		return decodeFull(fam, lvl, raw, deep)
	}
	ch := make(chan *decEvent, 1)
	go func() { ch <- decodeFull(fam, lvl, raw, deep) }()
	select {
	case ev := <-ch:
		return ev
	case <-time.After(10 * time.Second):
		return &decEvent{K: "dec", Fam: fam, Lvl: string(lvl), S: asciiSafe(raw), Panic: true, Sent: []string{"Decode did not return within 10 s"}}
	}
}

func v3FieldsOf(o v3obj, lvl byte) map[string]string {
	f := map[string]string{}
	for i := 0; i < levelUpto["v3"][lvl]; i++ {
		var c int
		switch lvl {
		case 'B':
			c = v3GetBaseField(o.b, i)
		case 'T':
			c = v3GetTempField(o.t, i)
		default:
			c = v3GetEnvField(o.e, i)
		}
		f[v3Defs[i].Name] = v3CodeOf(i, c)
	}
	return f
}

func v2FieldsOf(o v2obj, lvl byte) map[string]string {
	f := map[string]string{}
	for i := 0; i < levelUpto["v2"][lvl]; i++ {
		var c int
		switch lvl {
		case 'B':
			c = v2GetBaseField(o.b, i)
		case 'T':
			c = v2GetTempField(o.t, i)
		default:
			c = v2GetEnvField(o.e, i)
		}
		f[v2Defs[i].Name] = v2CodeOf(i, c)
	}
	return f
}

func v3OwnView(o v3obj, lvl byte) *view {
	switch lvl {
	case 'B':
		return mkView(o.b, o.b.Severity().String())
	case 'T':
		return mkView(o.t, o.t.Severity().String())
	}
	return mkView(o.e, o.e.Severity().String())
}

func v2OwnView(o v2obj, lvl byte) *view {
	switch lvl {
	case 'B':
		return mkView(o.b, o.b.Severity().String())
	case 'T':
		return mkView(o.t, o.t.Severity().String())
	}
	return mkView(o.e, o.e.Severity().String())
}

func evBody(ev any) string {
	b, _ := json.Marshal(ev)
	return string(b[1 : len(b)-1])
}

// ---------------------------------------------------------------------------
// input generators
// ---------------------------------------------------------------------------
// omitChoice: which of the X-valued optional metrics are left out: none, all, or a seeded subset
func omitChoice(rng *rand.Rand, xm uint32) uint32 {
	switch rng.Intn(4) {
	case 0:
		return 0
	case 1:
		return xm
	}
	return xm & uint32(rng.Int63())
}

func randValidV3(rng *rand.Rand, lvl byte) (string, string) {
	var v v3Vec
	upto := levelUpto["v3"][lvl]
	allX := rng.Intn(5) == 0 // every optional metric Not Defined
	for i := 0; i < upto; i++ {
		v[i] = uint8(rng.Intn(len(v3Defs[i].Codes)))
		if i >= 8 && (allX || rng.Intn(3) == 0) {
			v[i] = 0
		}
	}
	ver := v3Versions[rng.Intn(2)].Label
	toks := v3Tokens(&v, upto, omitChoice(rng, xMask(&v, 8, upto)))
	s1 := v3Join(ver, permuteMaybe(rng, toks))
	// a second spelling of the same token set: other order, other X spelling (the metrics of
	// the levels above lvl are Not Defined and may be spelled out as well)
	s2 := v3Join(ver, permute(rng, v3Tokens(&v, 22, omitChoice(rng, xMask(&v, 8, 22)))))
	return s1, s2
}

func permuteMaybe(rng *rand.Rand, toks []string) []string {
	if rng.Intn(2) == 0 {
		return toks
	}
	return permute(rng, toks)
}

func randValidV2(rng *rand.Rand, lvl byte) string {
	var v v2Vec
	for i := 0; i < v2N; i++ {
		v[i] = uint8(rng.Intn(len(v2Defs[i].Codes)))
	}
	temporal := lvl != 'B' && rng.Intn(3) != 0
	env := lvl == 'E' && rng.Intn(3) != 0
	return v2String(&v, temporal, env)
}

var editAlphabet = []string{"/", ":", ".", " ", "A", "C", "N", "X", "a", "n", "0", "3", "1", "\x00", "\xff", "é", "\t", "\n", "L", "H", "ND", "CVSS", "E:H", "AV:N", "Au:N", "MAV:X", "CDP:H"}

func randEdit(rng *rand.Rand, s string) string {
	switch rng.Intn(6) {
	case 0: // delete a byte
		if len(s) == 0 {
			return s
		}
		i := rng.Intn(len(s))
		return s[:i] + s[i+1:]
	case 1: // insert
		i := rng.Intn(len(s) + 1)
		return s[:i] + editAlphabet[rng.Intn(len(editAlphabet))] + s[i:]
	case 2: // substitute
		if len(s) == 0 {
			return s
		}
		i := rng.Intn(len(s))
		return s[:i] + editAlphabet[rng.Intn(len(editAlphabet))] + s[i+1:]
	case 3: // drop a token
		p := strings.Split(s, "/")
		i := rng.Intn(len(p))
		return strings.Join(append(append([]string{}, p[:i]...), p[i+1:]...), "/")
	case 4: // duplicate a token somewhere
		p := strings.Split(s, "/")
		i, j := rng.Intn(len(p)), rng.Intn(len(p)+1)
		q := append(append(append([]string{}, p[:j]...), p[i]), p[j:]...)
		return strings.Join(q, "/")
	default: // swap two tokens
		p := strings.Split(s, "/")
		i, j := rng.Intn(len(p)), rng.Intn(len(p))
		p[i], p[j] = p[j], p[i]
		return strings.Join(p, "/")
	}
}

func randBytes(rng *rand.Rand) string {
	n := rng.Intn(65)
	b := make([]byte, n)
	for i := range b {
		if rng.Intn(3) == 0 {
			b[i] = byte(rng.Intn(256))
		} else {
			b[i] = "/:.CVSAIENX31 0"[rng.Intn(15)]
		}
	}
	return string(b)
}

var pathological = []string{"", "/", ":", "//", "::", "CVSS", "CVSS:", "CVSS:3.1", "CVSS:3.1/", "CVSS:3.0/:", "CVSS:3.1/AV", "CVSS:3.1/AV:", "CVSS:3.1/:N",
	" CVSS:3.1/AV:N/AC:L/PR:N/UI:N/S:U/C:H/I:H/A:H", "CVSS:3.1/AV:N/AC:L/PR:N/UI:N/S:U/C:H/I:H/A:H ", "CVSS:3.1/AV:N/AC:L/PR:N/UI:N/S:U/C:H/I:H/A:H\n",
	"cvss:3.1/AV:N/AC:L/PR:N/UI:N/S:U/C:H/I:H/A:H", "CVSS:3.1/av:n/ac:l/pr:n/ui:n/s:u/c:h/i:h/a:h", "CVSS:2.0/AV:N/AC:L/Au:N/C:P/I:P/A:P", "CVSS:4.0/AV:N/AC:L/AT:N/PR:N/UI:N/VC:H/VI:H/VA:H/SC:N/SI:N/SA:N",
	"AV:N/AC:L/Au:N/C:P/I:P/A:P", "(AV:N/AC:L/Au:N/C:P/I:P/A:P)", "AV:N/AC:L/Au:N/C:P/I:P/A:P/", "/AV:N/AC:L/Au:N/C:P/I:P/A:P", "AV:N/AC:L/Au:N/C:P/I:P/A:P/E:ND", "AV:N/AC:L/Au:N/C:P/I:P/A:P/E:ND/RL:ND",
	"AV:N/AC:L/Au:N/C:P/I:P/A:P/CDP:N/TD:N/CR:L/IR:L/AR:L/E:H/RL:U/RC:C", "AV:N/AC:L/Au:N/C:P/I:P/A:P/RL:U/E:H/RC:C", "AV:N/AC:L/Au:N/C:P/I:P", "AV:N/AC:L/Au:N/C:P/I:P/A:P/A:P",
	"CVSS:3.1/AV:N/AC:L/PR:N/UI:N/S:U/C:H/I:H/A:H/AV:N", "CVSS:3.1/AV:N/AC:L/PR:N/UI:N/S:U/C:H/I:H/A:H/E:X/E:X", "CVSS:3.1/AV:N/AC:L/PR:N/UI:N/S:U/C:H/I:H", "CVSS:3.1/AV:N/AC:L/PR:N/UI:N/S:U/C:H/I:H/A:X",
	"CVSS:3.1/AV:N/AC:L/PR:N/UI:N/S:U/C:H/I:H/A:H/MAV:X/MAV:N", "CVSS:3.1/AV:N/AC:L/PR:N/UI:N/S:U/C:H/I:H/A:H/E:ND", "CVSS:3.1/AV:N:N/AC:L/PR:N/UI:N/S:U/C:H/I:H/A:H", "CVSS:3.1//AV:N/AC:L/PR:N/UI:N/S:U/C:H/I:H/A:H",
	"CVSS:3.10/AV:N/AC:L/PR:N/UI:N/S:U/C:H/I:H/A:H", "CVSS:3.1.0/AV:N/AC:L/PR:N/UI:N/S:U/C:H/I:H/A:H", "CVSS:3/AV:N/AC:L/PR:N/UI:N/S:U/C:H/I:H/A:H", "CVSS3.1/AV:N/AC:L/PR:N/UI:N/S:U/C:H/I:H/A:H",
	"ＣＶＳＳ:3.1/AV:N/AC:L/PR:N/UI:N/S:U/C:H/I:H/A:H", "CVSS:3.1/AV:Ｎ/AC:L/PR:N/UI:N/S:U/C:H/I:H/A:H", "CVSS:3.1/AV:N/AC:L/PR:N/UI:N/S:U/C:H/I:H/A:H\x00", "\x00CVSS:3.1/AV:N/AC:L/PR:N/UI:N/S:U/C:H/I:H/A:H"}

// ---------------------------------------------------------------------------
// lang: decode strings with the three decoders of a family, record everything observable
// ---------------------------------------------------------------------------
func cmdLang(args []string) {
	fs := flag.NewFlagSet("lang", flag.ExitOnError)
	commonFlags(fs)
	fam := fs.String("fam", "v3", "v3|v2")
	in := fs.String("in", "", "NDJSON file of {\"s\": escaped string} produced by TLC (MC_Lang)")
	nvalid := fs.Int("valid", 20000, "seeded random accepted vectors (with a second spelling each)")
	nedit := fs.Int("edits", 30000, "seeded random edits of valid vectors")
	nbytes := fs.Int("bytes", 10000, "seeded random byte strings")
	deepAll := fs.Bool("deep", true, "record views / projections / re-decode for accepted strings")
	nilrecv := fs.Bool("nilrecv", false, "decode every input through nil receivers as well (C12)")
	long := fs.Int("long", 0, "number of long pathological inputs (up to 8 MiB, thousands of separators)")
	allbt := fs.Bool("allbt", false, "add every base x temporal vector of the family (v2: all 73,629; v3: every base vector with seeded temporal values)")
	nsteps := fs.Int("steps", 0, "number of inputs whose decodeOne call sequence is recorded through the hook")
	fs.Parse(args)
	var inputs []string
	if *in != "" {
		f, err := os.Open(*in)
		if err != nil {
			die("%v", err)
		}
		sc := bufio.NewScanner(f)
		sc.Buffer(make([]byte, 1<<20), 1<<26)
		for sc.Scan() {
			var r struct {
				S string `json:"s"`
			}
			if json.Unmarshal(sc.Bytes(), &r) == nil {
				inputs = append(inputs, unescape(r.S))
			}
		}
		f.Close()
	}
	fromTLC := len(inputs)
	rng := newRand(600)
	lvls := []byte{'B', 'T', 'E'}
	type pairT struct{ a, b string }
	var pairs []pairT
	for i := 0; i < *nvalid; i++ {
		lvl := lvls[rng.Intn(3)]
		if *fam == "v3" {
			a, b := randValidV3(rng, lvl)
			inputs = append(inputs, a)
			pairs = append(pairs, pairT{a, b})
		} else {
			inputs = append(inputs, randValidV2(rng, lvl))
		}
	}
	if *fam == "v3" && *nvalid > 0 {
		// systematically: every (version, base vector) with no optional metric written against
		// the same vector with every optional metric spelled X
		for i := 0; i < v3BaseCount()*2; i++ {
			var v v3Vec
			v3SetFromIndex(&v, 0, v3NBase, i/2)
			ver := v3Versions[i%2].Label
			pairs = append(pairs, pairT{v3Join(ver, v3Tokens(&v, 8, 0)), v3Join(ver, permuteMaybe(rng, v3Tokens(&v, 22, 0)))})
		}
	}
	for i := 0; i < *nedit; i++ {
		var s string
		if *fam == "v3" {
			s, _ = randValidV3(rng, lvls[rng.Intn(3)])
		} else {
			s = randValidV2(rng, lvls[rng.Intn(3)])
		}
		for k := 1 + rng.Intn(3); k > 0; k-- {
			s = randEdit(rng, s)
		}
		inputs = append(inputs, s)
	}
	for i := 0; i < *nbytes; i++ {
		inputs = append(inputs, randBytes(rng))
	}
	if *allbt {
		if *fam == "v2" {
			for bi := 0; bi < v2Count(0, 6); bi++ {
				var v v2Vec
				v2SetFromIndex(&v, 0, 6, bi)
				inputs = append(inputs, v2String(&v, false, false))
				for ti := 0; ti < v2Count(6, 9); ti++ {
					v2SetFromIndex(&v, 6, 9, ti)
					inputs = append(inputs, v2String(&v, true, false))
					if (bi+ti)%7 == 0 {
						for i := 9; i < 14; i++ {
							v[i] = uint8(rng.Intn(len(v2Defs[i].Codes)))
						}
						inputs = append(inputs, v2String(&v, true, true))
					}
				}
			}
		} else {
			for bi := 0; bi < v3BaseCount()*2; bi++ {
				var v v3Vec
				v3SetFromIndex(&v, 0, 8, bi/2)
				ver := v3Versions[bi%2].Label
				inputs = append(inputs, v3Join(ver, v3Tokens(&v, 8, 0)))
				for k := 0; k < 3; k++ {
					randHigher(rng, &v, 8, 11)
					inputs = append(inputs, v3Join(ver, v3Tokens(&v, 11, 0)))
				}
				randHigher(rng, &v, 8, 22)
				inputs = append(inputs, v3Join(ver, permuteMaybe(rng, v3Tokens(&v, 22, xMask(&v, 8, 22)&uint32(rng.Int63())))))
			}
		}
	}
	inputs = append(inputs, pathological...)
	// long lists of well-formed tokens: a valid vector of each level followed by k surplus tokens of one kind
	{
		bases := map[string][]string{
			"v3": {"CVSS:3.1/AV:N/AC:L/PR:N/UI:N/S:U/C:H/I:H/A:H", "CVSS:3.0/AV:N/AC:L/PR:N/UI:N/S:U/C:H/I:H/A:H/E:F/RL:O/RC:C",
				"CVSS:3.1/AV:N/AC:L/PR:N/UI:N/S:U/C:H/I:H/A:H/E:F/RL:O/RC:C/CR:H/IR:M/AR:L/MAV:A/MAC:H/MPR:L/MUI:R/MS:C/MC:L/MI:N/MA:H"},
			"v2": {"AV:N/AC:L/Au:N/C:P/I:P/A:C", "AV:N/AC:L/Au:N/C:P/I:P/A:C/E:F/RL:W/RC:C", "AV:N/AC:L/Au:N/C:C/I:C/A:C/E:F/RL:W/RC:C/CDP:H/TD:H/CR:M/IR:M/AR:H"},
		}[*fam]
		extras := []string{"XX:N", "E:X", "MAV:N", "av:N", "CDP:H", "Q:1", "ZZZ:ZZZ"}
		for _, b := range bases {
			for _, x := range extras {
				for _, k := range []int{1, 2, 5, 8, 9, 10, 11, 14, 15, 16, 17, 20, 21, 22, 23, 24, 25, 29, 30, 31, 32, 33, 34, 40, 63, 64, 65, 100, 127, 128, 129} {
					if s := b + strings.Repeat("/"+x, k); len(s) <= 1500 {
						inputs = append(inputs, s)
					}
				}
			}
		}
	}
	// families of neighbours: a full vector and every vector that differs from it in exactly one metric
	// (a memo keyed too coarsely makes neighbours collide)
	if *nvalid > 0 {
		nfam := *nvalid / 400
		for k := 0; k < nfam; k++ {
			if *fam == "v3" {
				var v v3Vec
				for i := 0; i < v3N; i++ {
					v[i] = uint8(rng.Intn(len(v3Defs[i].Codes)))
					if i >= 8 && rng.Intn(3) == 0 {
						v[i] = uint8(len(v3Defs[i].Codes) - 1) // the last code of optional metrics more often
					}
				}
				ver := v3Versions[rng.Intn(2)].Label
				inputs = append(inputs, v3Join(ver, v3Tokens(&v, 22, 0)))
				for i := 0; i < v3N; i++ {
					for c := range v3Defs[i].Codes {
						if uint8(c) != v[i] {
							w := v
							w[i] = uint8(c)
							inputs = append(inputs, v3Join(ver, v3Tokens(&w, 22, 0)))
						}
					}
				}
			} else {
				var v v2Vec
				for i := 0; i < v2N; i++ {
					v[i] = uint8(rng.Intn(len(v2Defs[i].Codes)))
				}
				inputs = append(inputs, v2String(&v, true, true))
				for i := 0; i < v2N; i++ {
					for c := range v2Defs[i].Codes {
						if uint8(c) != v[i] {
							w := v
							w[i] = uint8(c)
							inputs = append(inputs, v2String(&w, true, true))
						}
					}
				}
			}
		}
	}
	// one value code of a valid vector respelled in another upper/lower-case mix ("E:PoC", "AV:n"): the only defect is that
	// value, whatever a lenient parser makes of it
	for k := 0; k < 4; k++ {
		caseVariants := func(code string) []string {
			var out []string
			for m := 1; m < 1<<uint(len(code)) && len(code) <= 4; m++ {
				b := []byte(code)
				for j := range b {
					if m&(1<<uint(j)) != 0 {
						b[j] = strings.ToLower(string(b[j]))[0]
					}
				}
				if string(b) != code {
					out = append(out, string(b))
				}
			}
			return out
		}
		if *fam == "v3" {
			var v v3Vec
			for i := 0; i < v3N; i++ {
				v[i] = uint8(rng.Intn(len(v3Defs[i].Codes)))
			}
			ver := v3Versions[k%2].Label
			toks := v3Tokens(&v, 22, 0)
			for i := 0; i < v3N; i++ {
				for _, cv := range caseVariants(v3Defs[i].Codes[v[i]].Code) {
					t := append([]string(nil), toks...)
					t[i] = v3Defs[i].Name + ":" + cv
					inputs = append(inputs, v3Join(ver, t))
				}
			}
		} else {
			var v v2Vec
			for i := 0; i < v2N; i++ {
				v[i] = uint8(rng.Intn(len(v2Defs[i].Codes)))
			}
			for i := 0; i < v2N; i++ {
				for c := range v2Defs[i].Codes {
					w := v
					w[i] = uint8(c)
					full := strings.Split(v2String(&w, true, true), "/")
					for _, cv := range caseVariants(v2Defs[i].Codes[c].Code) {
						t := append([]string(nil), full...)
						t[i] = v2Defs[i].Name + ":" + cv
						inputs = append(inputs, strings.Join(t, "/"))
					}
				}
			}
		}
	}
	// vectors of extreme length: every metric takes one of its LONGEST (or shortest) value codes at once -- a buffer or
	// length bound derived from "typical" codes shows only there.  All combinations of the longest codes, capped.
	{
		pick := func(ncodes int, code func(c int) string, longest bool) []int {
			best := -1
			for c := 0; c < ncodes; c++ {
				l := len(code(c))
				if best < 0 || (longest && l > best) || (!longest && l < best) {
					best = l
				}
			}
			var out []int
			for c := 0; c < ncodes; c++ {
				if len(code(c)) == best {
					out = append(out, c)
				}
			}
			return out
		}
		for _, longest := range []bool{true, false} {
			if *fam == "v2" {
				choices := make([][]int, v2N)
				for i := 0; i < v2N; i++ {
					i := i
					choices[i] = pick(len(v2Defs[i].Codes), func(c int) string { return v2Defs[i].Codes[c].Code }, longest)
				}
				for count := 0; count < 300; count++ {
					var v v2Vec
					for i := 0; i < v2N; i++ {
						v[i] = uint8(choices[i][rng.Intn(len(choices[i]))])
					}
					inputs = append(inputs, v2String(&v, true, true), v2String(&v, true, false), v2String(&v, false, true), v2String(&v, false, false))
				}
			} else {
				choices := make([][]int, v3N)
				for i := 0; i < v3N; i++ {
					i := i
					choices[i] = pick(len(v3Defs[i].Codes), func(c int) string { return v3Defs[i].Codes[c].Code }, longest)
				}
				for count := 0; count < 100; count++ {
					var v v3Vec
					for i := 0; i < v3N; i++ {
						v[i] = uint8(choices[i][rng.Intn(len(choices[i]))])
					}
					ver := v3Versions[count%2].Label
					inputs = append(inputs, v3Join(ver, v3Tokens(&v, 22, 0)), v3Join(ver, v3Tokens(&v, 11, 0)), v3Join(ver, v3Tokens(&v, 8, 0)))
				}
			}
		}
	}
	// ordered pairs of single-token defects: defect kind d1 in an earlier token, d2 in a later one
	{
		bases := map[string][]string{
			"v3": {"CVSS:3.1/AV:N/AC:L/PR:N/UI:N/S:U/C:H/I:H/A:H", "CVSS:3.0/AV:L/AC:H/PR:L/UI:R/S:C/C:L/I:N/A:H/E:F/RL:O/RC:C",
				"CVSS:3.1/AV:N/AC:L/PR:N/UI:N/S:U/C:H/I:H/A:H/E:F/RL:O/RC:C/CR:H/IR:M/AR:L/MAV:A/MAC:H/MPR:L/MUI:R/MS:C/MC:L/MI:N/MA:H"},
			"v2": {"AV:N/AC:L/Au:N/C:P/I:P/A:C", "AV:N/AC:L/Au:N/C:P/I:P/A:C/E:F/RL:W/RC:C", "AV:N/AC:L/Au:N/C:C/I:C/A:C/E:F/RL:W/RC:C/CDP:H/TD:H/CR:M/IR:M/AR:H"},
		}[*fam]
		type mk func(toks []string, at int) []string
		ins := func(t string) mk {
			return func(toks []string, at int) []string {
				return append(append(append([]string{}, toks[:at]...), t), toks[at:]...)
			}
		}
		repl := func(f func(string) string) mk {
			return func(toks []string, at int) []string {
				out := append([]string{}, toks...)
				if at < len(out) {
					out[at] = f(out[at])
				}
				return out
			}
		}
		defects := []mk{
			ins("XX:N"), ins("E:H"), ins("MAV:N"), ins("CDP:H"), // unsupported / higher-level names
			ins("AV"), ins(""), ins("AV:N:N"), ins(":N"), // malformed tokens
			func(toks []string, at int) []string { return ins(toks[len(toks)/2])(toks, at) }, // duplicate of an existing token
			repl(func(t string) string { return strings.SplitN(t, ":", 2)[0] + ":Z" }),       // unknown value
			repl(func(t string) string { return strings.ToLower(t) }),                        // lower case
			func(toks []string, at int) []string { // one token dropped
				if at >= len(toks) {
					return toks
				}
				return append(append([]string{}, toks[:at]...), toks[at+1:]...)
			},
		}
		for _, b := range bases {
			parts := strings.Split(b, "/")
			first := 0
			if *fam == "v3" {
				first = 1
			}
			for d1 := range defects {
				for d2 := range defects {
					for _, pos := range [][2]int{{first, len(parts) - 1}, {first + 1, first + 3}, {len(parts) - 2, len(parts)}, {first + 2, len(parts)}} {
						if pos[0] >= len(parts) || pos[1] > len(parts) || pos[0] >= pos[1] {
							continue
						}
						// apply the later edit first so that positions stay valid
						t := defects[d2](parts, pos[1])
						t = defects[d1](t, pos[0])
						inputs = append(inputs, strings.Join(t, "/"))
					}
				}
			}
		}
	}
	for i := 0; i < *long; i++ {
		var s string
		valid := "CVSS:3.1/AV:N/AC:L/PR:N/UI:N/S:U/C:H/I:H/A:H"
		if *fam == "v2" {
			valid = "AV:N/AC:L/Au:N/C:P/I:P/A:C"
		}
		switch i % 8 {
		case 0:
			s = strings.Repeat("/", 1000+rng.Intn(100000))
		case 1:
			s = strings.Repeat(":", 1000+rng.Intn(100000))
		case 2:
			s = valid + strings.Repeat("/E:X", 1000+rng.Intn(50000))
		case 3:
			s = valid + "/" + strings.Repeat("A", 1<<20+rng.Intn(7<<20))
		case 4:
			s = strings.Repeat(valid+"/", 500+rng.Intn(20000))
		case 5:
			s = "CVSS:" + strings.Repeat("3.1:", 1000+rng.Intn(100000))
		case 6:
			b := make([]byte, 1<<20+rng.Intn(1<<20))
			for j := range b {
				b[j] = byte(rng.Intn(256))
			}
			s = string(b)
		default:
			s = valid + strings.Repeat("/XX:"+strings.Repeat("Y", rng.Intn(50)), 1000+rng.Intn(30000))
		}
		inputs = append(inputs, s)
	}
	// de-duplicate inputs
	sort.Strings(inputs)
	uniq := inputs[:0]
	for i, s := range inputs {
		if i == 0 || s != inputs[i-1] {
			uniq = append(uniq, s)
		}
	}
	inputs = uniq
	workers := runtime.NumCPU()
	recs := make([]*Recorder, workers)
	for i := range recs {
		recs[i] = NewRecorder()
	}
	accepted := make([]int64, workers)
	parallelFor(len(inputs), workers, func(w, i int) {
		for _, lvl := range lvls {
			var ev *decEvent
			if flagPid == "C12" {
				ev = decodeWatched(*fam, lvl, inputs[i], *deepAll)
			} else {
				ev = decodeFull(*fam, lvl, inputs[i], *deepAll)
			}
			if ev.Ok {
				accepted[w]++
			}
			recs[w].Add(evBody(ev), "Decode")
		}
	})
	if *nsteps > 0 {
		// per-token conformance with the implementation-shaped model (Decoder.tla): the sequence of
		// decodeOne calls of the decoder's own level, observed through the build-tag hook
		// (sequential: the hook is a package-level variable)
		type se struct {
			K     string   `json:"k"`
			Fam   string   `json:"fam"`
			Lvl   string   `json:"lvl"`
			S     string   `json:"s"`
			Toks  []string `json:"toks"`
			Snaps []snap   `json:"snaps"` // receiver state at every decodeOne entry, then after Decode returned
			Ok    bool     `json:"ok"`
		}
		step := len(inputs) / *nsteps
		if step < 1 {
			step = 1
		}
		for i := 0; i < len(inputs); i += step {
			if len(inputs[i]) > 1500 {
				continue
			}
			for _, lvl := range lvls {
				site := siteNames[*fam+string(lvl)]
				h := newHandle(*fam, lvl, true)
				ev := se{K: "steps", Fam: *fam, Lvl: string(lvl), S: asciiSafe(inputs[i]), Toks: []string{}, Snaps: []snap{}}
				setHook(func(s string, recv any, arg string) {
					if s == site {
						ev.Toks = append(ev.Toks, asciiSafe(arg))
						ev.Snaps = append(ev.Snaps, h.snapshot())
					}
				})
				func() {
					defer func() { recover() }()
					_, err := h.decode(inputs[i])
					ev.Ok = err == nil
				}()
				setHook(nil)
				ev.Snaps = append(ev.Snaps, h.snapshot())
				recs[0].Add(evBody(ev), "decodeOne hook")
			}
		}
	}
	if *nilrecv {
		// the same inputs through typed nil receivers (sequentially: the switch is global)
		useNilReceiver = true
		for i := range inputs {
			for _, lvl := range lvls {
				ev := decodeFull(*fam, lvl, inputs[i], false)
				ev.NilRx = true
				recs[0].Add(evBody(ev), "(*T)(nil).Decode")
			}
		}
		useNilReceiver = false
	}
	// pairs: two spellings of one token set must be indistinguishable (C09)
	parallelFor(len(pairs), workers, func(w, i int) {
		p := pairs[i]
		a := decodeFull(*fam, 'E', p.a, false)
		b := decodeFull(*fam, 'E', p.b, false)
		type pe struct {
			K   string    `json:"k"`
			Fam string    `json:"fam"`
			Lvl string    `json:"lvl"`
			A   *decEvent `json:"a"`
			B   *decEvent `json:"b"`
		}
		recs[w].Add(evBody(pe{"pair", *fam, "E", a, b}), "Decode x2")
	})
	all := NewRecorder()
	var acc int64
	for i, r := range recs {
		all.Merge(r)
		acc += accepted[i]
	}
	s := all.Flush(flagOut, "lang-"+*fam, flagChunks)
	s.Extra = map[string]any{"inputs": len(inputs), "inputs_from_tlc": fromTLC, "accepted_decodes": acc, "pairs": len(pairs)}
	printSummary(s)
}

func init() { register("lang", cmdLang) }

// replay-event: re-executes one recorded observation against the current tree and prints the
// fresh event (same shape), for `bin/check <ID> --replay file`
func cmdReplayEvent(args []string) {
	fs := flag.NewFlagSet("replay-event", flag.ExitOnError)
	commonFlags(fs)
	file := fs.String("file", "", "replay file written by a check")
	fs.Parse(args)
	b, err := os.ReadFile(*file)
	if err != nil {
		die("%v", err)
	}
	var r struct {
		Event map[string]any `json:"event"`
	}
	if err := json.Unmarshal(b, &r); err != nil || r.Event == nil {
		die("no event in %s", *file)
	}
	ev := r.Event
	rec := NewRecorder()
	str := func(k string) string { s, _ := ev[k].(string); return s }
	switch str("k") {
	case "dec":
		rec.Add(evBody(decodeFull(str("fam"), str("lvl")[0], unescape(str("s")), true)), "replay")
	case "pair":
		a, _ := ev["a"].(map[string]any)
		bb, _ := ev["b"].(map[string]any)
		as, _ := a["s"].(string)
		bs, _ := bb["s"].(string)
		type pe struct {
			K   string    `json:"k"`
			Fam string    `json:"fam"`
			Lvl string    `json:"lvl"`
			A   *decEvent `json:"a"`
			B   *decEvent `json:"b"`
		}
		rec.Add(evBody(pe{"pair", str("fam"), "E", decodeFull(str("fam"), 'E', unescape(as), false), decodeFull(str("fam"), 'E', unescape(bs), false)}), "replay")
	case "v3":
		var v v3Vec
		all := str("b") + str("t") + str("e")
		for i := 0; i < v3N && i < len(all); i++ {
			for ci, cc := range v3Defs[i].Codes {
				if cc.Code == string(all[i]) {
					v[i] = uint8(ci)
				}
			}
		}
		vi := 0
		if str("ver") == "3.1" {
			vi = 1
		}
		upto := map[string]int{"B": 8, "T": 11, "E": 22}[str("lvl")]
		s := v3Join(str("ver"), v3Tokens(&v, upto, 0))
		o, err := v3Decode(str("lvl")[0], s)
		_ = vi
		if err != nil {
			rec.Add(v3ErrBody(str("ver"), &v, str("lvl"), err), "replay dec vector="+s)
			break
		}
		switch str("lvl") {
		case "B":
			rec.Add(v3EventBody(str("ver"), &v, "B", o.b.Score(), o.b.Severity().String(), true), "replay vector="+s)
		case "T":
			rec.Add(v3EventBody(str("ver"), &v, "T", o.t.Score(), o.t.Severity().String(), true), "replay vector="+s)
		default:
			rec.Add(v3EventBody(str("ver"), &v, "E", o.e.Score(), o.e.Severity().String(), true), "replay vector="+s)
		}
	case "v2":
		var v v2Vec
		get := func(k string) []string {
			out := []string{}
			if l, ok := ev[k].([]any); ok {
				for _, x := range l {
					out = append(out, x.(string))
				}
			}
			return out
		}
		bs, ts, es := get("b"), get("t"), get("e")
		codes := append(append(append([]string{}, bs...), pad(ts, 3)...), pad(es, 5)...)
		for i := 0; i < v2N && i < len(codes); i++ {
			for ci, cc := range v2Defs[i].Codes {
				if cc.Code == codes[i] {
					v[i] = uint8(ci)
				}
			}
		}
		s := v2String(&v, len(ts) > 0, len(es) > 0)
		dec := str("lvl")[0]
		if len(es) > 0 {
			dec = 'E'
		} else if len(ts) > 0 && dec == 'B' {
			dec = 'T'
		}
		o, err := v2Decode(dec, s)
		if err != nil {
			rec.Add(v2ErrBody(&v, len(ts) > 0, len(es) > 0, str("lvl"), err), "replay vector="+s)
			break
		}
		switch str("lvl") {
		case "B":
			rec.Add(v2EventBody(&v, false, false, "B", o.b.Score(), o.b.Severity().String()), "replay vector="+s)
		case "T":
			rec.Add(v2EventBody(&v, len(ts) > 0, false, "T", o.t.Score(), o.t.Severity().String()), "replay vector="+s)
		default:
			if o.e != nil {
				rec.Add(v2EventBody(&v, len(ts) > 0, len(es) > 0, "E", o.e.Score(), o.e.Severity().String()), "replay vector="+s)
			}
		}
	default:
		fmt.Println(`{"unsupported":true}`)
		return
	}
	printSummary(rec.Flush(flagOut, "replay", 1))
}

func pad(s []string, n int) []string {
	for len(s) < n {
		s = append(s, "")
	}
	return s
}

func init() { register("replay-event", cmdReplayEvent) }
