package main

import (
	"flag"
	"fmt"
	"math/rand"
	"runtime"
	"sync/atomic"

	m3 "github.com/goark/go-cvss/v3/metric"
)

// Dense copies of the TLC-emitted factor tables.
type v3Tables struct {
	eff  []uint8            // [ver][s][cr][c][ir][i][ar][a][av][ac][pr][ui] -> inner tenth
	temp [2][101][100]uint8 // [ver][inner][e*20+rl*4+rc] -> tenth
}

var effDims = []int{2, 2, 4, 3, 4, 3, 4, 3, 4, 2, 3, 2}

func effIndex(ix []int) int {
	n := 0
	for i, d := range effDims {
		n = n*d + ix[i]
	}
	return n
}

func loadV3Tables() *v3Tables {
	t := &v3Tables{}
	var eff map[string]int
	loadJSON("v3enveff.json", &eff)
	total := 1
	for _, d := range effDims {
		total *= d
	}
	t.eff = make([]uint8, total)
	// metric indices for the positions 2.. of effDims: CR C IR I AR A AV AC PR UI
	pos := []int{11, 5, 12, 6, 13, 7, 0, 1, 2, 3}
	ix := make([]int, len(effDims))
	var rec func(k int)
	rec = func(k int) {
		if k == len(effDims) {
			key := v3Versions[ix[0]].Label + "|" + v3Defs[4].Codes[ix[1]].Code + "|"
			for j, p := range pos {
				key += v3Defs[p].Codes[ix[2+j]].Code
			}
			v, ok := eff[key]
			if !ok {
				die("v3enveff.json lacks key %s", key)
			}
			t.eff[effIndex(ix)] = uint8(v)
			return
		}
		for i := 0; i < effDims[k]; i++ {
			ix[k] = i
			rec(k + 1)
		}
	}
	rec(0)
	var tmp map[string]int
	loadJSON("v3temporal.json", &tmp)
	for vi := 0; vi < 2; vi++ {
		for b := 0; b <= 100; b++ {
			for e := 0; e < 5; e++ {
				for rl := 0; rl < 5; rl++ {
					for rc := 0; rc < 4; rc++ {
						key := fmt.Sprintf("%s|%d|%s%s%s", v3Versions[vi].Label, b, v3Defs[8].Codes[e].Code, v3Defs[9].Codes[rl].Code, v3Defs[10].Codes[rc].Code)
						v, ok := tmp[key]
						if !ok {
							die("v3temporal.json lacks key %s", key)
						}
						t.temp[vi][b][e*20+rl*4+rc] = uint8(v)
					}
				}
			}
		}
	}
	return t
}

// effOf: the effective code index of Modified metric mod (14..21): the base metric's
// value when the Modified metric is X (spec: Eff).
func effOf(v *v3Vec, mod int) int {
	if v[mod] == 0 {
		return int(v[mod-14])
	}
	return int(v[mod]) - 1
}

// expected environmental tenth, composed in the shape of the spec's definition
// V3EnvTenth == TemporalOf(ver, Inner[Eff...], E, RL, RC)
func (t *v3Tables) expectEnv(vi int, v *v3Vec) int {
	ix := []int{vi, effOf(v, 18), int(v[11]), effOf(v, 19), int(v[12]), effOf(v, 20), int(v[13]), effOf(v, 21),
		effOf(v, 14), effOf(v, 15), effOf(v, 16), effOf(v, 17)}
	inner := t.eff[effIndex(ix)]
	return int(t.temp[vi][inner][int(v[8])*20+int(v[9])*4+int(v[10])])
}

// v3FreshCarrier: a constructor result whose exported fields are then set directly (never decoded)
func v3FreshCarrier(ver m3.Version) *m3.Environmental {
	em := m3.NewEnvironmental()
	em.Ver = ver
	return em
}

func v3Carrier(ver m3.Version) *m3.Environmental {
	verLabel := v3VerLabel(ver)
	em, err := m3.NewEnvironmental().Decode("CVSS:" + verLabel + "/AV:N/AC:L/PR:N/UI:N/S:U/C:H/I:H/A:H/E:X/RL:X/RC:X/CR:X/IR:X/AR:X/MAV:X/MAC:X/MPR:X/MUI:X/MS:X/MC:X/MI:X/MA:X")
	if err != nil {
		die("cannot decode carrier vector: %v", err)
	}
	return em
}

func v3Assign(em *m3.Environmental, v *v3Vec) {
	for i := 0; i < v3N; i++ {
		v3SetField(em, i, v3Defs[i].Codes[v[i]].C)
	}
}

func tempEventBody(ver string, inner int, v *v3Vec, f float64) string {
	t, ex, s := obsScore(f)
	return fmt.Sprintf(`"k":"v3t","ver":%q,"inner":%d,"t":%q,"obs":%d,"ex":%t,"str":%q`, ver, inner, v.codes(8, 11), t, ex, s)
}

// ---------------------------------------------------------------------------
// C03
// ---------------------------------------------------------------------------
func cmdV3Env(args []string) {
	fs := flag.NewFlagSet("v3env", flag.ExitOnError)
	commonFlags(fs)
	sample := fs.Int64("sample", 200000000, "size of the seeded sample of the concrete product (quick)")
	full := fs.Bool("full", false, "scan the whole concrete product (thorough)")
	decodes := fs.Int("decodes", 300000, "random vectors sent through Decode")
	raw := fs.Int("raw", 100000, "raw events of the concrete scan shown to TLC")
	fs.Parse(args)
	tab := loadV3Tables()
	workers := runtime.NumCPU()
	recs := make([]*Recorder, workers)
	rngs := make([]*rand.Rand, workers)
	carriers := make([][2]*m3.Environmental, workers)
	for i := range recs {
		recs[i] = NewRecorder()
		rngs[i] = newRand(200 + i)
		carriers[i] = [2]*m3.Environmental{v3Carrier(m3.V3_0), v3Carrier(m3.V3_1)}
	}
	var evalA, evalB, evalC, mismatches int64

	// (a) effective domain x temporal: every Modified metric explicit, base metrics arbitrary
	nEff := 1
	for _, d := range effDims {
		nEff *= d
	}
	parallelFor(nEff, workers, func(w, n int) {
		rec, rng := recs[w], rngs[w]
		ix := make([]int, len(effDims))
		r := n
		for k := len(effDims) - 1; k >= 0; k-- {
			ix[k] = r % effDims[k]
			r /= effDims[k]
		}
		vi := ix[0]
		ver := v3Versions[vi].Label
		em := carriers[w][vi]
		var v v3Vec
		for i := 0; i < 8; i++ { // arbitrary base metrics: explicit Modified metrics must win
			v[i] = uint8(rng.Intn(len(v3Defs[i].Codes)))
		}
		v[18] = uint8(ix[1] + 1)
		v[11], v[19] = uint8(ix[2]), uint8(ix[3]+1)
		v[12], v[20] = uint8(ix[4]), uint8(ix[5]+1)
		v[13], v[21] = uint8(ix[6]), uint8(ix[7]+1)
		v[14], v[15], v[16], v[17] = uint8(ix[8]+1), uint8(ix[9]+1), uint8(ix[10]+1), uint8(ix[11]+1)
		v[8], v[9], v[10] = 0, 0, 0
		v3Assign(em, &v)
		f0 := em.Score()
		inner, _, _ := obsScore(f0)
		rec.Add(v3EventBody(ver, &v, "E", f0, em.Severity().String(), n%977 == 0), "assign eff-domain")
		for ti := 1; ti < 100; ti++ {
			v3SetFromIndex(&v, 8, 11, ti)
			v3Assign(em, &v)
			f := em.Score()
			t, ex, _ := obsScore(f)
			if flagPid == "C06" {
				rec.Add(v3EventBody(ver, &v, "E", f, em.Severity().String(), false), "assign eff-domain x temporal")
			} else if inner >= 0 && inner <= 100 {
				rec.Add(tempEventBody(ver, inner, &v, f), "assign eff-domain x temporal")
			}
			if !ex || t != tab.expectEnv(vi, &v) {
				// every disagreement goes to TLC, up to a cap (a grossly wrong library must end in a
				// VIOLATION with witnesses, not in an exhausted machine)
				if atomic.AddInt64(&mismatches, 1) <= 20000 {
					rec.Add(v3EventBody(ver, &v, "E", f, em.Severity().String(), false), "assign eff-domain x temporal (differs from table composition)")
				}
			}
		}
		atomic.AddInt64(&evalA, 100)
	})

	// (b) concrete product (Modified metrics may be X): whole product or a seeded sample,
	// judged by table composition; a seeded subset and every disagreement go to TLC raw.
	nEnvTail := 1
	for i := 14; i < 22; i++ {
		nEnvTail *= len(v3Defs[i].Codes)
	}
	nb := v3BaseCount()
	var blocks int
	perBlock := nEnvTail // one block = fixed (ver, base, CR, IR, AR, temporal) x all Modified combinations
	if *full {
		blocks = 2 * nb * 64
	} else {
		blocks = int(*sample / int64(perBlock))
		if blocks < 1 {
			blocks = 1
		}
	}
	total := float64(blocks) * float64(perBlock)
	rawP := float64(*raw) / total
	parallelFor(blocks, workers, func(w, n int) {
		rec, rng := recs[w], rngs[w]
		var v v3Vec
		var vi int
		if *full {
			vi = n % 2
			r := n / 2
			v3SetFromIndex(&v, 0, 8, r%nb)
			v3SetFromIndex(&v, 11, 14, r/nb)
		} else {
			vi = rng.Intn(2)
			v3SetFromIndex(&v, 0, 8, rng.Intn(nb))
			v3SetFromIndex(&v, 11, 14, rng.Intn(64))
		}
		v3SetFromIndex(&v, 8, 11, rng.Intn(100))
		ver := v3Versions[vi].Label
		em := carriers[w][vi]
		if n%2 == 1 { // every other block on an object that was never decoded: fields set directly on a constructor result
			em = v3FreshCarrier(v3Versions[vi].C)
		}
		v3Assign(em, &v)
		for k := 0; k < perBlock; k++ {
			r := k
			for i := 14; i < 22; i++ {
				c := len(v3Defs[i].Codes)
				nv := uint8(r % c)
				r /= c
				if nv != v[i] {
					v[i] = nv
					v3SetField(em, i, v3Defs[i].Codes[nv].C)
				}
			}
			f := em.Score()
			t, ex, _ := obsScore(f)
			bad := !ex || t != tab.expectEnv(vi, &v)
			if bad && atomic.AddInt64(&mismatches, 1) > 20000 {
				continue
			}
			if bad || rng.Float64() < rawP {
				src := "assign concrete product"
				if bad {
					src += " (differs from table composition)"
				}
				rec.Add(v3EventBody(ver, &v, "E", f, em.Severity().String(), false), src)
			}
		}
		atomic.AddInt64(&evalB, int64(perBlock))
	})

	// (c) through Decode: seeded random vectors, permuted tokens, X spelled or omitted
	parallelFor(*decodes, workers, func(w, n int) {
		rec, rng := recs[w], rngs[w]
		var v v3Vec
		for i := 0; i < v3N; i++ {
			k := len(v3Defs[i].Codes)
			if i >= 8 && rng.Intn(3) == 0 {
				v[i] = 0
			} else {
				v[i] = uint8(rng.Intn(k))
			}
		}
		vi := rng.Intn(2)
		ver := v3Versions[vi].Label
		omit := xMask(&v, 8, 22) & uint32(rng.Int63())
		toks := v3Tokens(&v, 22, omit)
		if rng.Intn(2) == 0 {
			toks = permute(rng, toks)
		}
		s := v3Join(ver, toks)
		o, err := v3Decode('E', s)
		atomic.AddInt64(&evalC, 1)
		if err != nil {
			rec.Add(v3ErrBody(ver, &v, "E", err), "dec=E vector="+s)
			return
		}
		rec.Add(v3EventBody(ver, &v, "E", o.e.Score(), o.e.Severity().String(), n%500 == 0), "dec=E vector="+s)
	})

	// (d) every (version, base vector) through the Environmental decoder with no optional metric
	// written, with all of them spelled X, and with a seeded subset spelled X
	var evalD int64
	parallelFor(v3BaseCount()*2, workers, func(w, n int) {
		rec, rng := recs[w], rngs[w]
		var v v3Vec
		v3SetFromIndex(&v, 0, v3NBase, n/2)
		ver := v3Versions[n%2].Label
		xm := xMask(&v, 8, 22)
		for _, om := range []uint32{xm, 0, xm & uint32(rng.Int63()), xm &^ (1 << uint(8+rng.Intn(14)))} {
			s := v3Join(ver, permuteMaybe(rng, v3Tokens(&v, 22, om)))
			o, err := v3Decode('E', s)
			atomic.AddInt64(&evalD, 1)
			if err != nil {
				rec.Add(v3ErrBody(ver, &v, "E", err), "dec=E vector="+s)
				continue
			}
			rec.Add(v3EventBody(ver, &v, "E", o.e.Score(), o.e.Severity().String(), false), "dec=E vector="+s)
		}
	})
	evalD += v3ExtraPass(recs[0], newRand(79), "E")
	all := NewRecorder()
	for _, r := range recs {
		all.Merge(r)
	}
	s := all.Flush(flagOut, "v3env", flagChunks)
	s.Extra = map[string]any{"eff_domain_x_temporal": evalA, "concrete_product_scanned": evalB, "concrete_product_full": *full,
		"decoded": evalC, "all_not_defined_spellings_decoded": evalD, "table_composition_disagreements": mismatches}
	printSummary(s)
}

func init() { register("v3env", cmdV3Env) }
