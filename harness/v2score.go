package main

import (
	"flag"
	"fmt"
	"math/rand"
	"runtime"
	"sort"
	"sync/atomic"

	m2 "github.com/goark/go-cvss/v2/metric"
)

type v2obj struct {
	b *m2.Base
	t *m2.Temporal
	e *m2.Environmental
}

func v2Decode(dec byte, s string) (o v2obj, err error) {
	if useNilReceiver {
		switch dec {
		case 'B':
			o.b, err = (*m2.Base)(nil).Decode(s)
		case 'T':
			o.t, err = (*m2.Temporal)(nil).Decode(s)
			if err == nil {
				o.b = o.t.BaseMetrics()
			}
		case 'E':
			o.e, err = (*m2.Environmental)(nil).Decode(s)
			if err == nil {
				o.t = o.e.TemporalMetrics()
				o.b = o.e.BaseMetrics()
			}
		}
		return
	}
	switch dec {
	case 'B':
		o.b, err = m2.NewBase().Decode(s)
	case 'T':
		o.t, err = m2.NewTemporal().Decode(s)
		if err == nil {
			o.b = o.t.BaseMetrics()
		}
	case 'E':
		o.e, err = m2.NewEnvironmental().Decode(s)
		if err == nil {
			o.t = o.e.TemporalMetrics()
			o.b = o.e.BaseMetrics()
		}
	}
	return
}

func v2EventBody(v *v2Vec, temporal, env bool, lvl string, f float64, sev string) string {
	if flagPid == "C06" && !(lvl == "E" && env && v2NegEq(v)) {
		// vectors whose adjusted base equation is negative keep their full event: whether the
		// environmental equation itself is negative is for TLC to say (Trace_V2)
		return gridBody("v2", lvl, f, sev, false)
	}
	t, ex, s := obsScore(f)
	ts, es := "[]", "[]"
	if temporal {
		ts = v.codesJSON(6, 9)
	}
	if env {
		es = v.codesJSON(9, 14)
	}
	return fmt.Sprintf(`"k":"v2","b":%s,"t":%s,"e":%s,"lvl":%q,"obs":%d,"ex":%t,"str":%q,"sev":%q`,
		v.codesJSON(0, 6), ts, es, lvl, t, ex, s, sev)
}

func v2ErrBody(v *v2Vec, temporal, env bool, lvl string, err error) string {
	ts, es := "[]", "[]"
	if temporal {
		ts = v.codesJSON(6, 9)
	}
	if env {
		es = v.codesJSON(9, 14)
	}
	return fmt.Sprintf(`"k":"v2","b":%s,"t":%s,"e":%s,"lvl":%q,"obs":-99999,"ex":false,"str":%q,"sev":"-"`,
		v.codesJSON(0, 6), ts, es, lvl, asciiSafe("decode error: "+err.Error()))
}

// ---------------------------------------------------------------------------
// C04: all 729 x (100 + absent) vectors through all three decoders
// ---------------------------------------------------------------------------
func cmdV2BT(args []string) {
	fs := flag.NewFlagSet("v2bt", flag.ExitOnError)
	commonFlags(fs)
	fs.Parse(args)
	nb := v2Count(0, 6)
	nt := v2Count(6, 9)
	workers := runtime.NumCPU()
	recs := make([]*Recorder, workers)
	rngs := make([]*rand.Rand, workers)
	for i := range recs {
		recs[i] = NewRecorder()
		rngs[i] = newRand(300 + i)
	}
	var decodes int64
	parallelFor(nb, workers, func(w, bi int) {
		rec, rng := recs[w], rngs[w]
		var v v2Vec
		v2SetFromIndex(&v, 0, 6, bi)
		for ti := -1; ti < nt; ti++ {
			temporal := ti >= 0
			if temporal {
				v2SetFromIndex(&v, 6, 9, ti)
			}
			for _, dec := range []byte{'B', 'T', 'E'} {
				if dec == 'B' && temporal {
					continue
				}
				// environmental decoder: environmental group absent, and (thorough, or a seeded
				// third of the quick run) present with seeded values: lower views must not care
				envVariants := []bool{false}
				if dec == 'E' && (!quick() || rng.Intn(3) == 0) {
					envVariants = append(envVariants, true)
				}
				for _, env := range envVariants {
					if env {
						for i := 9; i < 14; i++ {
							v[i] = uint8(rng.Intn(len(v2Defs[i].Codes)))
						}
					}
					s := v2String(&v, temporal, env)
					atomic.AddInt64(&decodes, 1)
					o, err := v2Decode(dec, s)
					src := fmt.Sprintf("dec=%c vector=%s", dec, s)
					if err != nil {
						rec.Add(v2ErrBody(&v, temporal, false, "T", err), src)
						continue
					}
					// vary what was asked of the object before its lower-level views are read
					if pre := rng.Intn(3); pre > 0 {
						switch {
						case dec == 'E' && pre == 1:
							o.e.Score()
						case dec == 'E':
							o.e.Severity()
							o.e.Encode()
						case dec == 'T' && pre == 1:
							o.t.Score()
						case dec == 'T':
							o.t.Encode()
						}
						src += fmt.Sprintf(" after=%d", pre)
					}
					rec.Add(v2EventBody(&v, false, false, "B", o.b.Score(), o.b.Severity().String()), src+" via=BaseMetrics")
					if dec == 'B' {
						rec.Add(v2EventBody(&v, false, false, "B", o.b.Score(), o.b.Severity().String()), src+" via=Score")
					}
					if dec == 'T' {
						rec.Add(v2EventBody(&v, temporal, false, "T", o.t.Score(), o.t.Severity().String()), src+" via=Score")
					}
					if dec == 'E' {
						tm := o.e.TemporalMetrics()
						rec.Add(v2EventBody(&v, temporal, false, "T", tm.Score(), tm.Severity().String()), src+" via=TemporalMetrics")
						rec.Add(v2EventBody(&v, temporal, false, "T", o.e.Temporal.Score(), o.e.Temporal.Severity().String()), src+" via=.Temporal")
						rec.Add(v2EventBody(&v, false, false, "B", o.e.Base.Score(), o.e.Base.Severity().String()), src+" via=.Base")
						if !env {
							rec.Add(v2EventBody(&v, temporal, false, "E", o.e.Score(), o.e.Severity().String()), src+" via=Score(environmental group absent)")
						}
					}
				}
			}
		}
	})
	decodes += v2ExtraPass(recs[0], newRand(377), "T")
	all := NewRecorder()
	for _, r := range recs {
		all.Merge(r)
	}
	s := all.Flush(flagOut, "v2bt", flagChunks)
	s.Extra = map[string]any{"decodes": decodes, "domain": nb * (nt + 1)}
	printSummary(s)
}

// ---------------------------------------------------------------------------
// C05: the whole environmental domain 729 x 101 x (1920 + absent)
// ---------------------------------------------------------------------------
func v2Carrier(temporal, env bool) *m2.Environmental {
	var v v2Vec
	for i := range v {
		v[i] = 0
	}
	em, err := m2.NewEnvironmental().Decode(v2String(&v, temporal, env))
	if err != nil {
		die("cannot decode v2 carrier: %v", err)
	}
	return em
}

type v2oKey struct {
	ab     int16
	ti     int16 // -1 = temporal absent
	cdp    uint8
	td     uint8
	obs    int32
	ex     bool
	strOff bool
}

func cmdV2Env(args []string) {
	fs := flag.NewFlagSet("v2env", flag.ExitOnError)
	commonFlags(fs)
	decodes := fs.Int("decodes", 1000000, "random vectors sent through Decode")
	fs.Parse(args)
	nb := v2Count(0, 6)
	nt := v2Count(6, 9)
	nreq := v2Count(11, 14)
	workers := runtime.NumCPU()
	recs := make([]*Recorder, workers)
	rngs := make([]*rand.Rand, workers)
	for i := range recs {
		recs[i] = NewRecorder()
		rngs[i] = newRand(400 + i)
	}
	var evals, ndec int64
	type okey struct {
		ab, ti  int16
		cdp, td uint8
		f       float64
	}
	seenW := make([]map[okey]bool, workers)
	for i := range seenW {
		seenW[i] = map[okey]bool{}
	}
	outerW := make([]map[string]string, workers)
	for i := range outerW {
		outerW[i] = map[string]string{}
	}
	// (a) stage 1: every (base, CR, IR, AR) with temporal absent and CDP:ND/TD:ND exposes the adjusted base score
	//     stage 2: all temporal x CDP x TD on top of it, as tuples relative to the observed adjusted base score
	parallelFor(nb*nreq, workers, func(w, n int) {
		rec := recs[w]
		local := outerW[w]
		var v v2Vec
		v2SetFromIndex(&v, 0, 6, n%nb)
		v2SetFromIndex(&v, 11, 14, n/nb)
		cA := v2Carrier(false, true)
		cT := v2Carrier(true, true)
		v[9], v[10] = 5, 4 // CDP:ND TD:ND
		for i := 0; i < v2N; i++ {
			v2SetField(cA, i, v2Defs[i].Codes[v[i]].C)
		}
		f0 := cA.Score()
		rec.Add(v2EventBody(&v, false, true, "E", f0, cA.Severity().String()), "assign (temporal absent, CDP:ND, TD:ND)")
		negKey := v2NegEq(&v)
		ab, abex, _ := obsScore(f0)
		if !abex || ab < -100 || ab > 100 {
			return // reported by the raw event above
		}
		seen := seenW[w]
		for i := 0; i < v2N; i++ {
			v2SetField(cT, i, v2Defs[i].Codes[v[i]].C)
		}
		for ti := -1; ti < nt; ti++ {
			em := cA
			if ti >= 0 {
				em = cT
				v2SetFromIndex(&v, 6, 9, ti)
				for i := 6; i < 9; i++ {
					v2SetField(em, i, v2Defs[i].Codes[v[i]].C)
				}
			}
			for cdp := 0; cdp < 6; cdp++ {
				v[9] = uint8(cdp)
				v2SetField(em, 9, v2Defs[9].Codes[cdp].C)
				for td := 0; td < 5; td++ {
					v[10] = uint8(td)
					v2SetField(em, 10, v2Defs[10].Codes[td].C)
					f := em.Score()
					if flagPid == "C06" {
						// grid / severity observation (judged against the sign of the specification's equation)
						rec.Add(v2EventBody(&v, ti >= 0, true, "E", f, em.Severity().String()), "assign")
						continue
					}
					if negKey {
						// the adjusted base score has latitude here (negative equation): tuples
						// relative to the observed value would be unsound, record the full event
						rec.Add(v2EventBody(&v, ti >= 0, true, "E", f, em.Severity().String()), "assign")
						continue
					}
					k := okey{int16(ab), int16(ti), uint8(cdp), uint8(td), f}
					if seen[k] {
						continue
					}
					seen[k] = true
					t, ex, s := obsScore(f)
					ts := "[]"
					if ti >= 0 {
						ts = v.codesJSON(6, 9)
					}
					body := fmt.Sprintf(`"k":"v2o","ab":%d,"t":%s,"e":%s,"obs":%d,"ex":%t,"str":%q`, ab, ts, v.codesJSON(9, 11), t, ex, s)
					if _, ok := local[body]; !ok {
						local[body] = "assign " + v2String(&v, ti >= 0, true)
					}
				}
			}
		}
		atomic.AddInt64(&evals, int64((nt+1)*30+1))
	})
	// (a') the same adjusted base scores once more, on ONE carrier per (CR, IR, AR): the base metrics are swept in the
	//      order of their base score, so that consecutive assignments leave base and temporal score unchanged while the
	//      adjusted impact changes (a result kept from the previous assignment would be served again)
	if flagPid != "C06" {
		type bs struct {
			idx int
			f   float64
		}
		order := make([]bs, nb)
		{
			c := v2Carrier(false, false)
			for b := 0; b < nb; b++ {
				var v v2Vec
				v2SetFromIndex(&v, 0, 6, b)
				for i := 0; i < 6; i++ {
					v2SetField(c, i, v2Defs[i].Codes[v[i]].C)
				}
				order[b] = bs{b, c.BaseMetrics().Score()}
			}
			sort.SliceStable(order, func(i, j int) bool { return order[i].f < order[j].f })
		}
		parallelFor(nreq, workers, func(w, r int) {
			rec := recs[w]
			cA := v2Carrier(false, true)
			var v v2Vec
			v2SetFromIndex(&v, 11, 14, r)
			v[9], v[10] = 5, 4 // CDP:ND TD:ND
			for i := 9; i < v2N; i++ {
				v2SetField(cA, i, v2Defs[i].Codes[v[i]].C)
			}
			for _, o := range order {
				v2SetFromIndex(&v, 0, 6, o.idx)
				for i := 0; i < 6; i++ {
					v2SetField(cA, i, v2Defs[i].Codes[v[i]].C)
				}
				rec.Add(v2EventBody(&v, false, true, "E", cA.Score(), cA.Severity().String()), "assign on one carrier, base metrics swept by base score")
			}
			atomic.AddInt64(&evals, int64(nb))
		})
	}
	all := NewRecorder()
	for _, m := range outerW {
		for k, s := range m {
			if _, ok := all.m[k]; !ok {
				all.Add(k, s)
			}
		}
	}
	// (b) through Decode: seeded random complete vectors (all group patterns)
	parallelFor(*decodes, workers, func(w, n int) {
		rec, rng := recs[w], rngs[w]
		var v v2Vec
		for i := 0; i < v2N; i++ {
			v[i] = uint8(rng.Intn(len(v2Defs[i].Codes)))
		}
		temporal := rng.Intn(4) != 0
		env := rng.Intn(8) != 0
		s := v2String(&v, temporal, env)
		atomic.AddInt64(&ndec, 1)
		o, err := v2Decode('E', s)
		if err != nil {
			rec.Add(v2ErrBody(&v, temporal, env, "E", err), "dec=E vector="+s)
			return
		}
		rec.Add(v2EventBody(&v, temporal, env, "E", o.e.Score(), o.e.Severity().String()), "dec=E vector="+s)
	})
	ndec += v2ExtraPass(recs[0], newRand(378), "E")
	for _, r := range recs {
		all.Merge(r)
	}
	s := all.Flush(flagOut, "v2env", flagChunks)
	s.Extra = map[string]any{"assigned_evaluations": evals, "decoded": ndec, "domain": nb * (nt + 1) * (v2Count(9, 14) + 1)}
	printSummary(s)
}

// v2ExtraPass: the sequential counterpart of v3ExtraPass -- every base vector with seeded temporal / environmental
// groups decoded through typed nil receivers and with a seeded query asked of the receiver at every token boundary.
func v2ExtraPass(rec *Recorder, rng *rand.Rand, lvl string) int64 {
	var n int64
	nb := v2Count(0, 6)
	for bi := 0; bi < nb; bi++ {
		for rep := 0; rep < 4; rep++ {
			var v v2Vec
			v2SetFromIndex(&v, 0, 6, bi)
			for i := 6; i < v2N; i++ {
				v[i] = uint8(rng.Intn(len(v2Defs[i].Codes)))
			}
			temporal := rng.Intn(4) != 0
			env := lvl == "E" && rng.Intn(6) != 0
			for _, mode := range []string{"nil-receiver", "queried-during-decode"} {
				decs := map[string][]byte{"T": {'B', 'T', 'E'}, "E": {'E'}}[lvl]
				for _, dec := range decs {
					tp := temporal && dec != 'B'
					s := v2String(&v, tp, env && dec == 'E')
					if mode == "nil-receiver" {
						useNilReceiver = true
						// a rejected vector (all groups present, one token repeated or one base metric missing) first
						var junk v2Vec
						for k := 0; k < v2N; k++ {
							junk[k] = uint8(rng.Intn(len(v2Defs[k].Codes)))
						}
						js := v2String(&junk, true, true)
						if rng.Intn(2) == 0 {
							js += "/AR:H"
						} else {
							js = js[5:]
						}
						v2Decode(dec, js)
					} else {
						setHook(hookQueries(rng))
					}
					o, err := v2Decode(dec, s)
					useNilReceiver = false
					setHook(nil)
					n++
					src := fmt.Sprintf("%s dec=%c vector=%s", mode, dec, s)
					if err != nil {
						rec.Add(v2ErrBody(&v, tp, env && dec == 'E', lvl, err), src)
						continue
					}
					switch {
					case lvl == "E":
						rec.Add(v2EventBody(&v, tp, env, "E", o.e.Score(), o.e.Severity().String()), src)
					case dec == 'B':
						rec.Add(v2EventBody(&v, false, false, "B", o.b.Score(), o.b.Severity().String()), src)
					default:
						rec.Add(v2EventBody(&v, false, false, "B", o.b.Score(), o.b.Severity().String()), src+" via=BaseMetrics")
						rec.Add(v2EventBody(&v, tp, false, "T", o.t.Score(), o.t.Severity().String()), src+" via=temporal view")
					}
				}
			}
		}
	}
	return n
}

func init() {
	register("v2bt", cmdV2BT)
	register("v2env", cmdV2Env)
}
