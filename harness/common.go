package main

import (
	"bufio"
	"encoding/json"
	"fmt"
	"math"
	"math/rand"
	"os"
	"path/filepath"
	"runtime/debug"
	"sort"
	"strconv"
	"strings"
	"sync"
)

var genDir = envOr("VERIF_GEN", "/verif/gen")

func envOr(k, d string) string {
	if v := os.Getenv(k); v != "" {
		return v
	}
	return d
}

func seed() int64 {
	n, err := strconv.ParseInt(envOr("VERIF_SEED", "1"), 10, 64)
	if err != nil {
		return 1
	}
	return n
}

func newRand(stream int) *rand.Rand {
	return rand.New(rand.NewSource(seed()*1000003 + int64(stream)*7919 + 17))
}

func die(f string, a ...any) {
	fmt.Fprintf(os.Stderr, "harness: "+f+"\n", a...)
	os.Exit(3)
}

func loadJSON(name string, into any) {
	b, err := os.ReadFile(filepath.Join(genDir, name))
	if err != nil {
		die("cannot read %s: %v", name, err)
	}
	if err := json.Unmarshal(b, into); err != nil {
		die("cannot parse %s: %v", name, err)
	}
}

// obsScore projects a float score: tenth, exactness, printed form.
func obsScore(f float64) (int, bool, string) {
	s := strconv.FormatFloat(f, 'f', -1, 64)
	if math.IsNaN(f) || math.IsInf(f, 0) || math.Abs(f) > 1e6 {
		return 99999, false, s
	}
	t := int(math.Round(f * 10))
	return t, f == float64(t)/10, s
}

func jstr(s string) string {
	b, _ := json.Marshal(s)
	return string(b)
}

// asciiSafe escapes everything outside printable ASCII and the backslash itself, injectively,
// because TLC's JSON reader does not preserve UTF-8.
func asciiSafe(s string) string {
	var sb strings.Builder
	for i := 0; i < len(s); i++ {
		c := s[i]
		if c >= 0x20 && c < 0x7f && c != '\\' {
			sb.WriteByte(c)
		} else {
			fmt.Fprintf(&sb, "\\x%02x", c)
		}
	}
	return sb.String()
}

// ---------------------------------------------------------------------------
// Recorder: de-duplicates identical observations (count + first source) and
// writes them as NDJSON chunks for parallel validation by TLC.
// ---------------------------------------------------------------------------
type recEntry struct {
	n   int64
	src string
}

type Recorder struct {
	mu sync.Mutex
	m  map[string]*recEntry
	// total observations added
	total int64
}

func NewRecorder() *Recorder { return &Recorder{m: map[string]*recEntry{}} }

// Add records one observation; body is a JSON object body without braces,
// e.g. `"k":"v3","ver":"3.1",...`.
func (r *Recorder) Add(body, src string) {
	r.mu.Lock()
	r.total++
	if e, ok := r.m[body]; ok {
		e.n++
	} else {
		r.m[body] = &recEntry{1, src}
	}
	r.mu.Unlock()
}

func (r *Recorder) Merge(o *Recorder) {
	r.mu.Lock()
	defer r.mu.Unlock()
	r.total += o.total
	for k, e := range o.m {
		if x, ok := r.m[k]; ok {
			x.n += e.n
		} else {
			r.m[k] = e
		}
	}
}

type Summary struct {
	Observations int64             `json:"observations"`
	Distinct     int               `json:"distinct"`
	Chunks       []string          `json:"chunks"`
	ChunkLens    []int             `json:"chunk_lens"`
	Samples      []json.RawMessage `json:"samples"`
	Extra        map[string]any    `json:"extra,omitempty"`
	Panics       []string          `json:"panics,omitempty"`
}

// Flush writes the distinct events into `chunks` files under dir (sorted, so that
// runs are reproducible) and returns the summary.
func (r *Recorder) Flush(dir, prefix string, chunks int) *Summary {
	keys := make([]string, 0, len(r.m))
	for k := range r.m {
		keys = append(keys, k)
	}
	sort.Strings(keys)
	if chunks < 1 {
		chunks = 1
	}
	if len(keys) < chunks*50 {
		chunks = len(keys)/50 + 1
	}
	s := &Summary{Observations: r.total, Distinct: len(keys)}
	ws := make([]*bufio.Writer, chunks)
	fs := make([]*os.File, chunks)
	lens := make([]int, chunks)
	for i := range ws {
		p := filepath.Join(dir, fmt.Sprintf("%s.%d.ndjson", prefix, i))
		f, err := os.Create(p)
		if err != nil {
			die("%v", err)
		}
		fs[i] = f
		ws[i] = bufio.NewWriterSize(f, 1<<20)
		s.Chunks = append(s.Chunks, p)
	}
	step := len(keys)/8 + 1
	for i, k := range keys {
		e := r.m[k]
		line := "{" + k + `,"n":` + strconv.FormatInt(e.n, 10) + `,"src":` + jstr(asciiSafe(e.src)) + "}"
		c := i % chunks
		ws[c].WriteString(line)
		ws[c].WriteByte('\n')
		lens[c]++
		if i%step == 0 {
			s.Samples = append(s.Samples, json.RawMessage(line))
		}
	}
	for i := range ws {
		ws[i].Flush()
		fs[i].Close()
	}
	s.ChunkLens = lens
	return s
}

func printSummary(s *Summary) {
	libPanicMu.Lock()
	s.Panics = libPanics
	libPanicMu.Unlock()
	b, _ := json.Marshal(s)
	fmt.Println(string(b))
}

// panics of the library that escaped while the harness used it from several goroutines (each on its own objects): the
// harness goes on and reports them in its summary; the check turns them into a violation
var (
	libPanicMu sync.Mutex
	libPanics  []string
)

// parallelFor runs fn(worker, i) for i in [0,n) on all CPUs.
func parallelFor(n, workers int, fn func(w, i int)) {
	// static striping (worker w takes i = w, w+workers, ...), each worker in increasing order: with the per-worker
	// random sources the callers keep, a run is then a function of the seed alone and can be repeated exactly
	var wg sync.WaitGroup
	for w := 0; w < workers; w++ {
		wg.Add(1)
		go func(w int) {
			defer wg.Done()
			for i := w; i < n; i += workers {
				func() {
					defer func() {
						if r := recover(); r != nil {
							libPanicMu.Lock()
							if len(libPanics) < 5 {
								st := string(debug.Stack())
								if len(st) > 1500 {
									st = st[:1500]
								}
								libPanics = append(libPanics, asciiSafe(fmt.Sprintf("item %d: %v\n%s", i, r, st)))
							}
							libPanicMu.Unlock()
						}
					}()
					fn(w, i)
				}()
			}
		}(w)
	}
	wg.Wait()
}

func permute(rng *rand.Rand, toks []string) []string {
	out := append([]string(nil), toks...)
	rng.Shuffle(len(out), func(i, j int) { out[i], out[j] = out[j], out[i] })
	return out
}

func reversed(toks []string) []string {
	out := make([]string, len(toks))
	for i, t := range toks {
		out[len(toks)-1-i] = t
	}
	return out
}
