module verifharness

go 1.22

require github.com/goark/go-cvss v0.0.0

require (
	github.com/goark/errs v1.3.2
	golang.org/x/text v0.14.0
)

replace github.com/goark/go-cvss => /repo
