package main

import (
	"flag"
	"fmt"
	"math"
	"strings"

	m2 "github.com/goark/go-cvss/v2/metric"
	m3 "github.com/goark/go-cvss/v3/metric"
	v3ver "github.com/goark/go-cvss/v3/version"
)

func defsOf(fam string) []metricDef {
	if fam == "v3" {
		return v3Defs
	}
	return v2Defs
}

func symOf(fam string, idx, c int) string {
	for _, cc := range defsOf(fam)[idx].Codes {
		if cc.C == c {
			return cc.Code
		}
	}
	if c == 0 {
		return "?" // the unknown/invalid value of every metric type is the zero value
	}
	return fmt.Sprintf("#%d", c)
}

func jsonStrs(ss []string) string {
	out := make([]string, len(ss))
	for i, s := range ss {
		out[i] = jstr(s)
	}
	return "[" + strings.Join(out, ",") + "]"
}

func probeStrings() []string {
	set := map[string]bool{}
	add := func(s string) { set[s] = true }
	for _, fam := range []string{"v3", "v2"} {
		for _, d := range defsOf(fam) {
			add(d.Name)
			for _, c := range d.Codes {
				add(c.Code)
				add(strings.ToLower(c.Code))
				add(" " + c.Code)
				add(c.Code + " ")
				add(c.Code + c.Code)
				add(c.Code + "\x00")
				add("\t" + c.Code)
			}
		}
	}
	// concatenations of codes of one metric (a parser matching substrings or prefixes would accept them)
	for _, fam := range []string{"v3", "v2"} {
		for _, d := range defsOf(fam) {
			all, rev := "", ""
			for _, c1 := range d.Codes {
				all += c1.Code
				rev = c1.Code + rev
				for _, c2 := range d.Codes {
					add(c1.Code + c2.Code)
					add(c1.Code + "," + c2.Code)
				}
			}
			add(all)
			add(rev)
			if len(all) > 2 {
				add(all[:len(all)-1])
				add(all[1:])
			}
		}
	}
	// the tail of a longer metric name followed by one of that metric's codes ("A" + "CH" = "AC" + "H")
	for _, fam := range []string{"v3", "v2"} {
		for _, d := range defsOf(fam) {
			for k := 1; k < len(d.Name); k++ {
				for _, c := range d.Codes {
					add(d.Name[k:] + c.Code)
					add(d.Name[k:] + ":" + c.Code)
				}
			}
			for _, c := range d.Codes {
				add(d.Name + c.Code)
				add(d.Name + ":" + c.Code)
			}
		}
	}
	// look-alikes outside ASCII: characters whose code point has the same low byte (or low 7 bits) as a code's first
	// character, fullwidth forms, a code followed by a combining mark, the code's bytes with the high bit set
	for _, fam := range []string{"v3", "v2"} {
		for _, d := range defsOf(fam) {
			for _, c := range d.Codes {
				r0 := rune(c.Code[0])
				for _, off := range []rune{0x100, 0x200, 0x2100, 0x10000, 0x80} {
					add(string(r0+off) + c.Code[1:])
				}
				add(string(rune(0xFF21+(r0-'A'))) + c.Code[1:])
				add(c.Code + "\u0301")
				add(string([]byte{c.Code[0] | 0x80}) + c.Code[1:])
				add("\ufeff" + c.Code)
			}
		}
	}
	// every upper/lower-case spelling of every code of up to four letters ("PoC", "Poc", "pOC", ...)
	for _, fam := range []string{"v3", "v2"} {
		for _, d := range defsOf(fam) {
			for _, c := range d.Codes {
				if len(c.Code) > 4 {
					continue
				}
				for m := 0; m < 1<<uint(len(c.Code)); m++ {
					b := []byte(c.Code)
					for k := range b {
						if m&(1<<uint(k)) != 0 {
							b[k] = strings.ToLower(string(b[k]))[0]
						}
					}
					add(string(b))
				}
			}
		}
	}
	add("XLMH")
	add("LMH")
	add("XNALP")
	add("NLH")
	for _, s := range []string{"", " ", "X", "x", "ND", "nd", "Nd", "0", "1", "Unknown", "unknown", "None", "High", "N/A", ":", "/", "Ｎ", "Н", "Ｎ", "ñ", "X ", "NX", "?", "*", "\x00", "POC ", "poc", "Poc"} {
		add(s)
	}
	rng := newRand(900)
	for i := 0; i < 200; i++ {
		n := 1 + rng.Intn(3)
		b := make([]byte, n)
		for j := range b {
			b[j] = byte(rng.Intn(256))
		}
		add(string(b))
	}
	out := make([]string, 0, len(set))
	for s := range set {
		out = append(out, s)
	}
	return out
}

func weightObs(w float64) (int, bool) {
	if math.IsNaN(w) || math.IsInf(w, 0) || math.Abs(w) > 1e5 {
		return 99999999, false
	}
	k := int(math.Round(w * 1000))
	return k, w == float64(k)/1000
}

// C20: code / enumeration / weight tables of every metric type and both version parsers
func cmdTables(args []string) {
	fs := flag.NewFlagSet("tables", flag.ExitOnError)
	commonFlags(fs)
	fs.Parse(args)
	rec := NewRecorder()
	probes := probeStrings()
	// two passes over all metrics: identical observations merge; a parser whose answer depends on what
	// was parsed before (of this or another metric) leaves a second, different observation
	for pass := 0; pass < 2; pass++ {
		for _, mm := range metaMetrics {
			d := defsOf(mm.Fam)[mm.Idx]
			if d.Name != mm.Name {
				die("meta table out of step at %s/%s", mm.Fam, mm.Name)
			}
			codes := []string{}
			for _, c := range d.Codes {
				codes = append(codes, c.Code)
			}
			rec.Add(fmt.Sprintf(`"k":"defs","fam":%q,"idx":%d,"m":%q,"codes":%s`, mm.Fam, mm.Idx, mm.Name, jsonStrs(codes)), "harness tables")
			for _, s := range probes {
				got := symOf(mm.Fam, mm.Idx, mm.Get(s))
				rec.Add(fmt.Sprintf(`"k":"parse","fam":%q,"m":%q,"s":%s,"got":%q`, mm.Fam, mm.Name, jstr(asciiSafe(s)), got), "Get("+s+")")
			}
			unknownPred := mm.Pred(0)
			defd := []string{}
			// enumeration integers: the defined ones, their neighbours, and values congruent to a defined one modulo 2^8,
			// 2^16 and 2^32 (a table index computed in a narrower type would take them for the defined value)
			cs := []int{}
			for c := -2; c <= 9; c++ {
				cs = append(cs, c)
			}
			for c := 0; c <= 6; c++ {
				cs = append(cs, c+256, c-256, c+65536, c+(1<<32), c-(1<<32))
			}
			cs = append(cs, math.MaxInt64, math.MinInt64, math.MaxInt32, math.MinInt32)
			for _, c := range cs {
				sym := symOf(mm.Fam, mm.Idx, c)
				rec.Add(fmt.Sprintf(`"k":"print","fam":%q,"m":%q,"c":%q,"str":%s`, mm.Fam, mm.Name, sym, jstr(asciiSafe(mm.Str(c)))), "String()")
				if mm.Defined != nil {
					rec.Add(fmt.Sprintf(`"k":"isdefined","fam":%q,"m":%q,"c":%q,"val":%t`, mm.Fam, mm.Name, sym, mm.Defined(c)), "IsDefined()")
				}
				if sym != "?" && sym[0] != '#' {
					defd = append(defd, fmt.Sprintf(`[%q,%t]`, sym, mm.Pred(c)))
					for _, wo := range mm.Weights(c) {
						w, ex := weightObs(wo.W)
						ctx := map[string]string{}
						for _, kv := range strings.Split(wo.Ctx, ",") {
							if kv != "" {
								p := strings.SplitN(kv, "=", 2)
								ctx[p[0]] = p[1]
							}
						}
						rec.Add(fmt.Sprintf(`"k":"weight","fam":%q,"m":%q,"c":%q,"scope":%q,"base":%q,"ms":%q,"s":%q,"w":%d,"ex":%t`,
							mm.Fam, mm.Name, sym, ctx["scope"], ctx["base"], ctx["ms"], ctx["s"], w, ex), "Value("+wo.Ctx+")")
					}
				}
			}
			rec.Add(fmt.Sprintf(`"k":"pred","fam":%q,"m":%q,"pname":%q,"unknown":%t,"defined":[%s]`, mm.Fam, mm.Name, mm.PredName, unknownPred, strings.Join(defd, ",")), mm.PredName)
		}
	}
	// version label parsers / printers
	verSym := func(c int) string {
		switch c {
		case int(m3.V3_0):
			return "3.0"
		case int(m3.V3_1):
			return "3.1"
		case 0:
			return "?"
		}
		return fmt.Sprintf("#%d", c)
	}
	vprobes := append(probes, "3.0", "3.1", "3", "3.", "3.2", "3.10", "3.00", "2.0", "4.0", "v3.1", " 3.1", "3.1 ", "3,1", "3.1.0", "31", "", "3.01", "3.00", "3.001", "3.+1", "3.+0", "3.-0", "+3.1", "3.1e0", "3.1.", "03.1", "3.１", "3.1\x00", "0x3.1", "3_1", "3.1-rc", "3.0 ", "3.O")
	for _, s := range vprobes {
		v, err := m3.GetVersion("CVSS:" + s)
		got := verSym(int(v))
		if err != nil {
			got = "?"
		}
		rec.Add(fmt.Sprintf(`"k":"ver","pkg":"metric","s":%s,"got":%q`, jstr(asciiSafe(s)), got), "metric.GetVersion(CVSS:"+s+")")
		rec.Add(fmt.Sprintf(`"k":"ver","pkg":"version","s":%s,"got":%q`, jstr(asciiSafe(s)), verSym(int(v3ver.Get(s)))), "version.Get("+s+")")
	}
	for c := -1; c <= 7; c++ {
		rec.Add(fmt.Sprintf(`"k":"sevstr","fam":"v3","c":%d,"str":%s`, c, jstr(asciiSafe(m3.Severity(c).String()))), "v3 Severity.String")
		rec.Add(fmt.Sprintf(`"k":"sevstr","fam":"v2","c":%d,"str":%s`, c, jstr(asciiSafe(m2.Severity(c).String()))), "v2 Severity.String")
	}
	for c := -1; c <= 4; c++ {
		rec.Add(fmt.Sprintf(`"k":"verprint","pkg":"metric","c":%q,"str":%s`, verSym(c), jstr(asciiSafe(m3.Version(c).String()))), "Version.String")
		rec.Add(fmt.Sprintf(`"k":"verprint","pkg":"version","c":%q,"str":%s`, verSym(c), jstr(asciiSafe(v3ver.Num(c).String()))), "Num.String")
	}
	s := rec.Flush(flagOut, "tables", flagChunks)
	s.Extra = map[string]any{"metrics": len(metaMetrics), "probe_strings": len(probes)}
	printSummary(s)
}

func init() { register("tables", cmdTables) }
