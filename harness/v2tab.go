package main

import (
	m2 "github.com/goark/go-cvss/v2/metric"
)

// canonical order: base(6) temporal(3) environmental(5)
var v2Defs = []metricDef{
	{"AV", []codeConst{{"L", int(m2.AccessVectorLocal)}, {"A", int(m2.AccessVectorAdjacent)}, {"N", int(m2.AccessVectorNetwork)}}},
	{"AC", []codeConst{{"H", int(m2.AccessComplexityHigh)}, {"M", int(m2.AccessComplexityMedium)}, {"L", int(m2.AccessComplexityLow)}}},
	{"Au", []codeConst{{"M", int(m2.AuthenticationMultiple)}, {"S", int(m2.AuthenticationSingle)}, {"N", int(m2.AuthenticationNone)}}},
	{"C", []codeConst{{"N", int(m2.ConfidentialityImpactNone)}, {"P", int(m2.ConfidentialityImpactPartial)}, {"C", int(m2.ConfidentialityImpactComplete)}}},
	{"I", []codeConst{{"N", int(m2.IntegrityImpactNone)}, {"P", int(m2.IntegrityImpactPartial)}, {"C", int(m2.IntegrityImpactComplete)}}},
	{"A", []codeConst{{"N", int(m2.AvailabilityImpactNone)}, {"P", int(m2.AvailabilityImpactPartial)}, {"C", int(m2.AvailabilityImpactComplete)}}},
	{"E", []codeConst{{"U", int(m2.ExploitabilityUnproven)}, {"POC", int(m2.ExploitabilityProofOfConcept)}, {"F", int(m2.ExploitabilityFunctional)}, {"H", int(m2.ExploitabilityHigh)}, {"ND", int(m2.ExploitabilityNotDefined)}}},
	{"RL", []codeConst{{"OF", int(m2.RemediationLevelOfficialFix)}, {"TF", int(m2.RemediationLevelTemporaryFix)}, {"W", int(m2.RemediationLevelWorkaround)}, {"U", int(m2.RemediationLevelUnavailable)}, {"ND", int(m2.RemediationLevelNotDefined)}}},
	{"RC", []codeConst{{"UC", int(m2.ReportConfidenceUnconfirmed)}, {"UR", int(m2.ReportConfidenceUncorroborated)}, {"C", int(m2.ReportConfidenceConfirmed)}, {"ND", int(m2.ReportConfidenceNotDefined)}}},
	{"CDP", []codeConst{{"N", int(m2.CollateralDamagePotentialNon)}, {"L", int(m2.CollateralDamagePotentialLow)}, {"LM", int(m2.CollateralDamagePotentialLowMedium)}, {"MH", int(m2.CollateralDamagePotentialMediumHigh)}, {"H", int(m2.CollateralDamagePotentialHigh)}, {"ND", int(m2.CollateralDamagePotentialNotDefined)}}},
	{"TD", []codeConst{{"N", int(m2.TargetDistributionNon)}, {"L", int(m2.TargetDistributionLow)}, {"M", int(m2.TargetDistributionMedium)}, {"H", int(m2.TargetDistributionHigh)}, {"ND", int(m2.TargetDistributionNotDefined)}}},
	{"CR", []codeConst{{"L", int(m2.ConfidentialityRequirementLow)}, {"M", int(m2.ConfidentialityRequirementMedium)}, {"H", int(m2.ConfidentialityRequirementHigh)}, {"ND", int(m2.ConfidentialityRequirementNotDefined)}}},
	{"IR", []codeConst{{"L", int(m2.IntegrityRequirementLow)}, {"M", int(m2.IntegrityRequirementMedium)}, {"H", int(m2.IntegrityRequirementHigh)}, {"ND", int(m2.IntegrityRequirementNotDefined)}}},
	{"AR", []codeConst{{"L", int(m2.AvailabilityRequirementLow)}, {"M", int(m2.AvailabilityRequirementMedium)}, {"H", int(m2.AvailabilityRequirementHigh)}, {"ND", int(m2.AvailabilityRequirementNotDefined)}}},
}

const (
	v2NBase = 6
	v2NTemp = 3
	v2NEnv  = 5
	v2N     = 14
)

func v2SetField(em *m2.Environmental, idx int, c int) {
	switch idx {
	case 0:
		em.AV = m2.AccessVector(c)
	case 1:
		em.AC = m2.AccessComplexity(c)
	case 2:
		em.Au = m2.Authentication(c)
	case 3:
		em.C = m2.ConfidentialityImpact(c)
	case 4:
		em.I = m2.IntegrityImpact(c)
	case 5:
		em.A = m2.AvailabilityImpact(c)
	case 6:
		em.E = m2.Exploitability(c)
	case 7:
		em.RL = m2.RemediationLevel(c)
	case 8:
		em.RC = m2.ReportConfidence(c)
	case 9:
		em.CDP = m2.CollateralDamagePotential(c)
	case 10:
		em.TD = m2.TargetDistribution(c)
	case 11:
		em.CR = m2.ConfidentialityRequirement(c)
	case 12:
		em.IR = m2.IntegrityRequirement(c)
	case 13:
		em.AR = m2.AvailabilityRequirement(c)
	}
}

func v2GetBaseField(b *m2.Base, idx int) int {
	switch idx {
	case 0:
		return int(b.AV)
	case 1:
		return int(b.AC)
	case 2:
		return int(b.Au)
	case 3:
		return int(b.C)
	case 4:
		return int(b.I)
	case 5:
		return int(b.A)
	}
	return -1
}
func v2GetTempField(t *m2.Temporal, idx int) int {
	switch idx {
	case 6:
		return int(t.E)
	case 7:
		return int(t.RL)
	case 8:
		return int(t.RC)
	}
	return v2GetBaseField(t.Base, idx)
}
func v2GetEnvField(e *m2.Environmental, idx int) int {
	switch idx {
	case 9:
		return int(e.CDP)
	case 10:
		return int(e.TD)
	case 11:
		return int(e.CR)
	case 12:
		return int(e.IR)
	case 13:
		return int(e.AR)
	}
	return v2GetTempField(e.Temporal, idx)
}

func v2CodeOf(idx int, c int) string {
	for _, cc := range v2Defs[idx].Codes {
		if cc.C == c {
			return cc.Code
		}
	}
	return "?"
}

type v2Vec [v2N]uint8

func (v *v2Vec) codesJSON(from, to int) string {
	s := "["
	for i := from; i < to; i++ {
		if i > from {
			s += ","
		}
		s += `"` + v2Defs[i].Codes[v[i]].Code + `"`
	}
	return s + "]"
}

func (v *v2Vec) token(i int) string {
	return v2Defs[i].Name + ":" + v2Defs[i].Codes[v[i]].Code
}

func v2SetFromIndex(v *v2Vec, from, to int, idx int) {
	for i := from; i < to; i++ {
		k := len(v2Defs[i].Codes)
		v[i] = uint8(idx % k)
		idx /= k
	}
}

func v2Count(from, to int) int {
	n := 1
	for i := from; i < to; i++ {
		n *= len(v2Defs[i].Codes)
	}
	return n
}

// v2String: canonical vector with the temporal / environmental group present or absent
func v2String(v *v2Vec, temporal, env bool) string {
	s := ""
	for i := 0; i < v2N; i++ {
		if (i >= 6 && i < 9 && !temporal) || (i >= 9 && !env) {
			continue
		}
		if s != "" {
			s += "/"
		}
		s += v.token(i)
	}
	return s
}
