"""Shared machinery for the go-cvss checks: TLC runner, TLA+ value parser, harness
build, evidence writer, known-finding matcher.  Python standard library only."""
import json, os, re, shutil, subprocess, sys, time, hashlib, glob

VERIF = os.path.dirname(os.path.dirname(os.path.abspath(__file__)))
SPEC = os.path.join(VERIF, "spec")
HARNESS = os.path.join(VERIF, "harness")
GEN = os.path.join(VERIF, "gen")
REPO = os.environ.get("VERIF_REPO", "/repo")
# tools/mutsweep.py only: record digests of the observed traces into this file instead of validating them
FINGERPRINT = os.environ.get("VERIF_FINGERPRINT")
REPLAY_DIR = os.environ.get("VERIF_REPLAY_DIR") or os.path.join(VERIF, "replay")   # overridden by tools/mutsweep.py only
TLA_CP = "/opt/veriftools/tla/tla2tools.jar:/opt/veriftools/tla/CommunityModules-deps.jar"
NCPU = os.cpu_count() or 4

EXIT_OK, EXIT_VIOLATION, EXIT_INFRA = 0, 1, 2


class Infra(Exception):
    """Tool failure, time-out, spec-level failure: exit 2, never a violation."""


def log(*a):
    print("[verif]", *a, file=sys.stderr, flush=True)


# --------------------------------------------------------------------------
# run context
# --------------------------------------------------------------------------
class Run:
    def __init__(self, pid, tier, seed, keep_replays=False):
        self.pid, self.tier, self.seed = pid, tier, seed
        self.t0 = time.time()
        self.work = os.path.join(VERIF, ".work", "%s-%s-%d-%d" % (pid, tier, seed, os.getpid()))
        shutil.rmtree(self.work, ignore_errors=True)
        os.makedirs(self.work)
        self.tlc_runs = []          # per-TLC-run statistics
        self.cov = {}               # coverage entries gathered along the way
        self.assumptions = []
        self.violations = []        # dicts {what, replay}
        self.known = []             # strings
        self.samples = []
        self.harness_bin = None
        if not keep_replays:
            for f in glob.glob(os.path.join(REPLAY_DIR, pid + "-*.json")):
                os.remove(f)

    def path(self, *a):
        return os.path.join(self.work, *a)

    def cleanup(self):
        if not os.environ.get("VERIF_KEEP"):
            shutil.rmtree(self.work, ignore_errors=True)

    @property
    def quick(self):
        return self.tier == "quick"


def go_env():
    e = dict(os.environ)
    e.update(GOFLAGS="-mod=mod", GOPROXY="off", GOSUMDB="off", GOTOOLCHAIN="local")
    return e


def build_harness(run, race=False):
    """Builds the conformance harness against /repo's current working tree, hooks on."""
    out = run.path("verifharness-race" if race else "verifharness")
    src = HARNESS
    if REPO != "/repo":
        # VERIF_REPO (used by tools/seedtest.py only): build against a scratch checkout instead of /repo,
        # from a private copy of the harness whose replace directive points there
        src = run.path("harness-src")
        if not os.path.exists(src):
            shutil.copytree(HARNESS, src, ignore=shutil.ignore_patterns("verifharness*"))
            gm = open(os.path.join(src, "go.mod")).read().replace("=> /repo", "=> " + REPO)
            open(os.path.join(src, "go.mod"), "w").write(gm)
    shutil.copy(os.path.join(REPO, "go.sum"), os.path.join(src, "go.sum"))
    cmd = ["go", "build", "-tags", "verif"] + (["-race"] if race else []) + ["-o", out, "."]
    t = time.time()
    p = subprocess.run(cmd, cwd=src, env=go_env(), capture_output=True, text=True)
    if p.returncode != 0:
        raise Infra("harness build failed (the tree must compile):\n" + p.stdout + p.stderr)
    log("harness built in %.1fs%s" % (time.time() - t, " (race)" if race else ""))
    if not race:
        run.harness_bin = out
    return out


def run_harness(run, args, timeout=3600, binary=None, env=None, stdin=None):
    b = binary or run.harness_bin
    t = time.time()
    e = dict(os.environ)
    e["VERIF_SEED"] = str(run.seed)
    if env:
        e.update(env)
    p = subprocess.run([b] + args, cwd=run.work, capture_output=True, text=True, timeout=timeout, env=e, input=stdin)
    log("harness %s: rc=%d %.1fs" % (" ".join(args[:4]), p.returncode, time.time() - t))
    if p.returncode != 0:
        raise Infra("harness %s failed rc=%d:\n%s\n%s" % (args, p.returncode, p.stdout[-3000:], p.stderr[-3000:]))
    return p.stdout


# --------------------------------------------------------------------------
# TLC
# --------------------------------------------------------------------------
STAT_RE = re.compile(r"(\d+) states generated, (\d+) distinct states found, (\d+) states left on queue")
DEPTH_RE = re.compile(r"The depth of the complete state graph search is (\d+)")


def spec_hash(*modules):
    h = hashlib.sha256()
    for f in sorted(glob.glob(os.path.join(SPEC, "*.tla")) + glob.glob(os.path.join(SPEC, "*.cfg"))):
        h.update(os.path.basename(f).encode())
        h.update(open(f, "rb").read())
    return h.hexdigest()[:16]


def run_tlc(run, module, cfg=None, workers=None, dump=False, env=None, timeout=1800,
            extra=None, simulate=None, tag=None, coverage=False, allow_violation=False, jvm=None):
    """Runs TLC on spec/<module>.tla in a scratch copy.  Returns dict(stdout, generated,
    distinct, depth, dump=path|None, prints=[lines printed by PrintT], ok)."""
    tag = tag or module
    ckey = None
    if FINGERPRINT and not module.startswith("Trace_"):
        # generator runs do not depend on the code: share them between the runs of one sweep
        ckey = os.path.join(os.environ.get("VERIF_FP_CACHE", FINGERPRINT + ".cache"), hashlib.sha256(json.dumps(
            [spec_hash(), module, cfg, dump, sorted((env or {}).items()), extra, simulate, run.seed], default=str).encode()).hexdigest()[:24])
        if os.path.exists(ckey + ".json"):
            res = json.load(open(ckey + ".json"))
            if res.get("dump"):
                res["dump"] = ckey + ".dump"
            return res
    wd = run.path("tlc-" + tag)
    shutil.rmtree(wd, ignore_errors=True)
    os.makedirs(wd)
    for f in glob.glob(os.path.join(SPEC, "*.tla")):
        shutil.copy(f, wd)
    cfgsrc = os.path.join(SPEC, (cfg or module) + ".cfg")
    shutil.copy(cfgsrc, os.path.join(wd, module + ".cfg"))
    cmd = ["java", "-Xss32m"] + (jvm or ["-XX:+UseParallelGC"]) + ["-Xmx%dg" % int(os.environ.get("VERIF_TLC_HEAP_GB", "12")),
           "-cp", TLA_CP, "tlc2.TLC",
           "-workers", str(workers or NCPU), "-metadir", os.path.join(wd, "md"), "-noGenerateSpecTE"]
    dpath = None
    if dump:
        dpath = os.path.join(wd, "states")
        cmd += ["-dump", dpath]
        dpath += ".dump"
    if simulate:
        cmd += ["-simulate", simulate]
    if coverage:
        cmd += ["-coverage", "1"]
    if extra:
        cmd += extra
    cmd += [module + ".tla"]
    e = dict(os.environ)
    e.pop("JAVA_TOOL_OPTIONS", None)
    e["VERIF_GEN"] = GEN
    e["VERIF_SEED"] = str(run.seed)
    if env:
        e.update({k: str(v) for k, v in env.items()})
    t = time.time()
    try:
        p = subprocess.run(cmd, cwd=wd, env=e, capture_output=True, text=True, timeout=timeout)
    except subprocess.TimeoutExpired:
        subprocess.run(["pkill", "-f", "tlc2.TL[C].*" + re.escape(wd)])
        raise Infra("TLC time-out after %ds on %s" % (timeout, tag))
    out = p.stdout + p.stderr
    dt = time.time() - t
    m = None
    for m in STAT_RE.finditer(out):
        pass
    gen = int(m.group(1)) if m else 0
    dist = int(m.group(2)) if m else 0
    left = int(m.group(3)) if m else -1
    d = DEPTH_RE.search(out)
    res = dict(stdout=out, generated=gen, distinct=dist, left=left, depth=int(d.group(1)) if d else 0,
               dump=dpath, wall_s=round(dt, 2), tag=tag, rc=p.returncode, workdir=wd)
    res["prints"] = [l for l in out.splitlines() if l.startswith("<<\"") or l.startswith("[ev")]
    completed = "Model checking completed. No error has been found." in out or (simulate and p.returncode in (0,))
    res["ok"] = bool(completed)
    run.tlc_runs.append(dict(tag=tag, generated=gen, distinct=dist, wall_s=round(dt, 2), ok=res["ok"]))
    log("TLC %s: %d generated / %d distinct, %.1fs, %s" % (tag, gen, dist, dt, "ok" if res["ok"] else "NOT OK rc=%d" % p.returncode))
    if not res["ok"] and not allow_violation:
        keep = run.path("tlc-%s.out" % tag)
        open(keep, "w").write(out)
        tail = "\n".join([l for l in out.splitlines() if not l.startswith(("Semantic", "Linting", "Parsing"))][-60:])
        raise Infra("TLC did not complete cleanly on %s (spec-level failure is a defect of the specification, not of the code):\n%s" % (tag, tail))
    if ckey:
        os.makedirs(os.path.dirname(ckey), exist_ok=True)
        if res.get("dump"):
            shutil.copy(res["dump"], ckey + ".dump")
        with open(ckey + ".json.tmp%d" % os.getpid(), "w") as f:
            json.dump(res, f)
        os.replace(ckey + ".json.tmp%d" % os.getpid(), ckey + ".json")
    return res


# --------------------------------------------------------------------------
# TLA+ value parser (for -dump files and PrintT output)
# --------------------------------------------------------------------------
class _P:
    def __init__(self, s):
        self.s, self.i, self.n = s, 0, len(s)

    def ws(self):
        while self.i < self.n and self.s[self.i] in " \t\r\n":
            self.i += 1

    def peek(self, k=1):
        return self.s[self.i:self.i + k]

    def expect(self, t):
        self.ws()
        if self.s[self.i:self.i + len(t)] != t:
            raise ValueError("expected %r at %d: %r" % (t, self.i, self.s[self.i:self.i + 40]))
        self.i += len(t)

    def value(self):
        self.ws()
        c = self.peek()
        if c == '"':
            return self.string()
        if c == "<" and self.peek(2) == "<<":
            self.i += 2
            return self.seq(">>")
        if c == "{":
            self.i += 1
            return self.seq("}")
        if c == "[":
            self.i += 1
            return self.record()
        if c == "(":
            self.i += 1
            return self.fcn()
        if c == "-" or c.isdigit():
            j = self.i + 1
            while j < self.n and self.s[j].isdigit():
                j += 1
            v = int(self.s[self.i:j])
            self.i = j
            return v
        m = re.compile(r"[A-Za-z_][A-Za-z0-9_]*").match(self.s, self.i)
        if m:
            self.i = m.end()
            w = m.group(0)
            return True if w == "TRUE" else False if w == "FALSE" else w
        raise ValueError("cannot parse at %d: %r" % (self.i, self.s[self.i:self.i + 40]))

    def string(self):
        j = self.i + 1
        out = []
        while self.s[j] != '"':
            if self.s[j] == "\\":
                j += 1
                out.append({"n": "\n", "t": "\t", "r": "\r", "f": "\f"}.get(self.s[j], self.s[j]))
            else:
                out.append(self.s[j])
            j += 1
        self.i = j + 1
        return "".join(out)

    def seq(self, close):
        out = []
        self.ws()
        if self.s.startswith(close, self.i):
            self.i += len(close)
            return out
        while True:
            out.append(self.value())
            self.ws()
            if self.s.startswith(close, self.i):
                self.i += len(close)
                return out
            self.expect(",")

    def record(self):
        out = {}
        while True:
            self.ws()
            m = re.compile(r"[A-Za-z_][A-Za-z0-9_]*").match(self.s, self.i)
            k = m.group(0)
            self.i = m.end()
            self.expect("|->")
            out[k] = self.value()
            self.ws()
            if self.peek() == "]":
                self.i += 1
                return out
            self.expect(",")

    def fcn(self):
        out = {}
        while True:
            k = self.value()
            self.expect(":>")
            v = self.value()
            out[json.dumps(k) if not isinstance(k, (str, int)) else k] = v
            self.ws()
            if self.peek() == ")":
                self.i += 1
                return out
            self.expect("@@")


def parse_tla(s):
    return _P(s).value()


def parse_dump(path):
    """Parses a TLC -dump file into a list of {var: value} dicts."""
    txt = open(path).read()
    states = []
    for blk in re.split(r"^State \d+:\s*$", txt, flags=re.M)[1:]:
        st = {}
        for part in re.split(r"^/\\ ", blk.strip(), flags=re.M):
            part = part.strip()
            if not part:
                continue
            k, v = part.split(" = ", 1)
            st[k.strip()] = parse_tla(v)
        states.append(st)
    return states


# --------------------------------------------------------------------------
# NDJSON helpers
# --------------------------------------------------------------------------
def write_ndjson(path, rows):
    with open(path, "w") as f:
        for r in rows:
            f.write(json.dumps(r, separators=(",", ":")) + "\n")


def read_ndjson(path):
    with open(path) as f:
        return [json.loads(l) for l in f if l.strip()]


# --------------------------------------------------------------------------
# known findings
# --------------------------------------------------------------------------
def load_known():
    p = os.path.join(VERIF, "known_findings.json")
    if not os.path.exists(p):
        return {"findings": [], "fixed": []}
    return json.load(open(p))


# --------------------------------------------------------------------------
# evidence + exit
# --------------------------------------------------------------------------
def finish(run, level, rule, evaluations, distinct_nontrivial, exhaustive, extra_cov=None):
    """Prints KNOWN-FINDING / VIOLATION lines, writes the evidence file, returns the exit code."""
    if FINGERPRINT:
        return EXIT_OK
    for k in run.known:
        print("KNOWN-FINDING: property=%s %s" % (run.pid, k))
    if run.cov.get("model_drift"):
        # diagnostics of the implementation-shaped layer: the code no longer does things the way Decoder.tla / Objects!EncodeText
        # describe them; the properties are judged by the property layer alone, so this is information, not an alarm
        print("MODEL-DRIFT: property=%s %d diagnostics (not a violation), e.g. %s" % (run.pid, run.cov["model_drift"],
              (run.cov.get("model_drift_samples") or [""])[0][:200]))
    rc = EXIT_OK
    for v in run.violations[:20]:
        print("VIOLATION property=%s replay=%s" % (run.pid, v["replay"]))
        print("  what: %s" % v["what"])
        rc = EXIT_VIOLATION
    # only TLC runs of THIS check run are counted; tables served from the gen/ cache are listed (cached: true) but not summed
    states = sum(r["distinct"] for r in run.tlc_runs if not r.get("cached"))
    trans = sum(r["generated"] for r in run.tlc_runs if not r.get("cached"))
    cov = {
        "evaluations": int(evaluations),
        "distinct_nontrivial": int(distinct_nontrivial),
        "rule": rule,
        "samples": run.samples[:12] or ["(none)"],
        "states": int(states),
        "transitions": int(trans),
        "traces_validated_against_impl": int(run.cov.get("traces_validated_against_impl", 0)),
        "exhaustive": bool(exhaustive),
        "tlc_runs": run.tlc_runs,
        "known_findings_reported": len(run.known),
    }
    cov.update({k: v for k, v in run.cov.items() if k not in cov})
    if extra_cov:
        cov.update(extra_cov)
    ev = {
        "property_id": run.pid, "tier": run.tier, "seed": int(run.seed), "level": level,
        "coverage": cov, "assumptions": run.assumptions,
        "wall_s": round(time.time() - run.t0, 2), "violations": len(run.violations),
    }
    evdir = os.environ.get("VERIF_EVIDENCE_DIR") or os.path.join(VERIF, "evidence")   # overridden by tools/mutsweep.py only
    os.makedirs(evdir, exist_ok=True)
    with open(os.path.join(evdir, run.pid + ".json"), "w") as f:
        json.dump(ev, f, indent=1, sort_keys=True)
        f.write("\n")
    log("%s %s: %s in %.1fs (evaluations=%d)" % (run.pid, run.tier, "OK" if rc == 0 else "VIOLATION", time.time() - run.t0, evaluations))
    return rc


def save_replay(run, name, obj):
    os.makedirs(REPLAY_DIR, exist_ok=True)
    p = os.path.join(REPLAY_DIR, "%s-%s.json" % (run.pid, name))
    with open(p, "w") as f:
        json.dump(obj, f, indent=1)
    return p


# --------------------------------------------------------------------------
# trace validation: K chunk files, one single-worker TLC process per chunk, in parallel
# --------------------------------------------------------------------------
VERDICT_RE = re.compile(r'^"VERDICT\|(\d+)\|(.*)"$', re.M)
BADCOUNT_RE = re.compile(r'^"BADCOUNT\|(\d+)"$', re.M)


def _tla_unescape(s):
    return re.sub(r"\\(.)", lambda m: {"n": "\n", "t": "\t"}.get(m.group(1), m.group(1)), s)


def validate_trace(run, module, chunks, pid=None, env=None, par=None, heap_gb=3, timeout=1800, label=None):
    """Validates recorded NDJSON chunks against spec/<module>.tla.  Returns the list of
    verdicts [{chunk, pos, kind, detail, event}] that TLC reported (everything that is not
    "ok").  Raises Infra when a chunk was not consumed completely."""
    from concurrent.futures import ThreadPoolExecutor
    chunks = [c for c in chunks if os.path.getsize(c) > 0]
    if FINGERPRINT:
        # tools/mutsweep.py: no validation, only an order-independent digest of what the implementation was observed to do
        acc, n = 0, 0
        for c in chunks:
            with open(c, "rb") as f:
                for line in f:
                    line = re.sub(rb"0xc[0-9a-f]{6,12}", b"0xPTR", line)      # "{{.}}" prints the address of an embedded pointer
                    acc = (acc + int.from_bytes(hashlib.blake2b(line, digest_size=8).digest(), "big")) & ((1 << 64) - 1)
                    n += 1
        with open(FINGERPRINT, "a") as f:
            f.write(json.dumps({"pid": run.pid, "label": label or module, "lines": n, "digest": "%016x" % acc}) + "\n")
        return []
    par = par or max(1, min(len(chunks), NCPU))
    label = label or module
    old_heap = os.environ.get("VERIF_TLC_HEAP_GB")
    os.environ["VERIF_TLC_HEAP_GB"] = str(heap_gb)
    results = []

    def one(ix_path):
        ix, path = ix_path
        e = {"VERIF_TRACE": path, "VERIF_PID": pid or run.pid}
        if env:
            e.update(env)
        big = os.path.getsize(path) > 8 << 20
        jvm = ["-XX:+UseSerialGC"] + ([] if big else ["-XX:TieredStopAtLevel=1"])
        return path, run_tlc(run, module, workers=1, env=e, timeout=timeout, tag="%s-%d" % (label, ix), jvm=jvm)

    try:
        with ThreadPoolExecutor(max_workers=par) as ex:
            results = list(ex.map(one, enumerate(chunks)))
    finally:
        if old_heap is None:
            os.environ.pop("VERIF_TLC_HEAP_GB", None)
        else:
            os.environ["VERIF_TLC_HEAP_GB"] = old_heap
    verdicts = []
    nev = 0
    for path, res in results:
        with open(path) as f:
            lines = f.read().splitlines()
        nev += len(lines)
        if res["distinct"] != len(lines) + 2:
            raise Infra("trace %s not consumed completely: %d states for %d events" % (path, res["distinct"], len(lines)))
        found = 0
        for m in VERDICT_RE.finditer(res["stdout"]):
            pos = int(m.group(1))
            found += 1
            verdicts.append(dict(chunk=path, pos=pos, kind=_tla_unescape(m.group(2)), detail="", event=json.loads(lines[pos - 1])))
        bc = BADCOUNT_RE.search(res["stdout"])
        if not bc or int(bc.group(1)) != found:
            raise Infra("trace %s: TLC reported %s verdicts but %d were parsed" % (path, bc.group(1) if bc else "no count of", found))
    run.cov["traces_validated_against_impl"] = run.cov.get("traces_validated_against_impl", 0) + len(chunks)
    run.cov["trace_events_validated"] = run.cov.get("trace_events_validated", 0) + nev
    return verdicts
