"""Factor tables emitted by TLC from the specification into /verif/gen (cached by the hash
of the spec files; regenerated when stale).  Every table is computed by TLC -- Python only
reshapes TLC's state dump into JSON objects that TLC (JsonDeserialize) and the harness load."""
import fcntl, json, os, re, time
import vlib
from vlib import GEN, log


def _stamp(name):
    return os.path.join(GEN, name + ".hash")


def _fresh(name):
    try:
        return open(_stamp(name)).read().strip() == vlib.spec_hash() and os.path.exists(os.path.join(GEN, name + ".json"))
    except OSError:
        return False


def _write(name, obj, stats):
    os.makedirs(GEN, exist_ok=True)
    tmp = os.path.join(GEN, name + ".json.tmp%d" % os.getpid())
    with open(tmp, "w") as f:
        json.dump(obj, f, separators=(",", ":"), sort_keys=True)
    os.replace(tmp, os.path.join(GEN, name + ".json"))
    with open(os.path.join(GEN, name + ".stats.json"), "w") as f:
        json.dump(stats, f)
    with open(_stamp(name), "w") as f:
        f.write(vlib.spec_hash())


def _stats(res):
    return dict(tag=res["tag"], generated=res["generated"], distinct=res["distinct"], wall_s=res["wall_s"], ok=True, cached=False)


def _gen_tables(run):
    res = vlib.run_tlc(run, "MC_Tables", dump=True, workers=1)
    st = vlib.parse_dump(res["dump"])
    _write("tables", st[0]["tables"], _stats(res))


def _gen_v3base(run):
    res = vlib.run_tlc(run, "MC_V3Base", dump=True)
    out = {}
    for s in vlib.parse_dump(res["dump"]):
        if s["score"] >= 0:
            b = s["b"]
            out[s["ver"] + "".join(b[n] for n in ("AV", "AC", "PR", "UI", "S", "C", "I", "A"))] = s["score"]
    assert len(out) == 5184, len(out)
    _write("v3base", out, _stats(res))


def _gen_v3temporal(run):
    res = vlib.run_tlc(run, "MC_V3Temporal", dump=True)
    out = {}
    for s in vlib.parse_dump(res["dump"]):
        if s["b"] >= 0:
            out["%s|%d|%s%s%s" % (s["ver"], s["b"], s["e"], s["rl"], s["rc"])] = s["t"]
    assert len(out) == 20200, len(out)
    _write("v3temporal", out, _stats(res))


def _gen_v3envinner(run):
    res = vlib.run_tlc(run, "MC_V3Env", dump=True)
    out = {}
    for s in vlib.parse_dump(res["dump"]):
        if s["inner"] >= 0:
            k = s["key"]
            out["%s|%s|%d,%d,%d|%d|%d|%d|%d" % (s["ver"], "C" if s["changed"] else "U", k[0], k[1], k[2],
                                                s["av"], s["ac"], s["pr"], s["ui"])] = s["inner"]
    assert len(out) == 16128, len(out)
    _write("v3envinner", out, _stats(res))


def _gen_v3enveff(run):
    res = vlib.run_tlc(run, "MC_V3EnvEff", dump=True)
    out = {}
    for m in re.finditer(r'row = "(3\.[01]\|[UC]\|[A-Z]{10})\|(\d+)"', open(res["dump"]).read()):
        out[m.group(1)] = int(m.group(2))
    assert len(out) == 331776, len(out)
    _write("v3enveff", out, _stats(res))


def _gen_v2tabs(run):
    res = vlib.run_tlc(run, "MC_V2", dump=True)
    out = {"base": {}, "adj": {}}
    for s in vlib.parse_dump(res["dump"]):
        if s["kind"] in ("base", "adj"):
            k = "%d,%d,%d|%d,%d,%d" % tuple(s["key"] + s["ex"])
            out[s["kind"]][k] = {"spec": sorted(s["spec"]), "r2": sorted(s["r2"]), "neg": s["neg"]}
    assert len(out["base"]) == 270 and len(out["adj"]) == 2268, (len(out["base"]), len(out["adj"]))
    _write("v2tabs", out, _stats(res))


def _gen_v2neg(run):
    res = vlib.run_tlc(run, "MC_V2Neg", dump=True)
    rows = re.findall(r'row = "(neg|pos)\|([A-Za-z/]+)"', open(res["dump"]).read())
    assert len(rows) == 46656, len(rows)
    _write("v2neg", {"neg": sorted(k for s, k in rows if s == "neg"), "total": len(rows)}, _stats(res))


BUILDERS = {
    "v2neg": _gen_v2neg,
    "v2tabs": _gen_v2tabs,
    "tables": _gen_tables,
    "v3base": _gen_v3base,
    "v3temporal": _gen_v3temporal,
    "v3envinner": _gen_v3envinner,
    "v3enveff": _gen_v3enveff,
}


DEPS = {"v3enveff": ["v3envinner"], "v2neg": ["v2tabs"]}


def register(name, fn):
    BUILDERS[name] = fn


def ensure(run, names, force=False):
    """Makes sure gen/<name>.json is current for each name; records the TLC statistics of
    the generating run (also when served from the cache) in run.tlc_runs."""
    os.makedirs(GEN, exist_ok=True)
    with open(os.path.join(GEN, ".lock"), "w") as lk:
        fcntl.flock(lk, fcntl.LOCK_EX)
        todo = []
        for n in names:
            for d in DEPS.get(n, []):
                if d not in todo:
                    todo.append(d)
            if n not in todo:
                todo.append(n)
        for n in todo:
            if (force and n in names and not vlib.FINGERPRINT) or not _fresh(n):
                t = time.time()
                BUILDERS[n](run)
                log("gen %s rebuilt in %.1fs" % (n, time.time() - t))
            else:
                st = json.load(open(os.path.join(GEN, n + ".stats.json")))
                st["cached"] = True
                run.tlc_runs.append(st)


def load(name):
    return json.load(open(os.path.join(GEN, name + ".json")))
