"""Per-property pipelines.  Each check_<ID>(run) runs: spec-level model checking (TLC),
conformance recording (Go harness against /repo), trace validation (TLC), and returns the
arguments for vlib.finish()."""
import glob, json, os, re
import vlib, gen
from vlib import Infra, log

MC = "model_checking"
EXPL = "exploration"


def harness_json(run, args, **kw):
    out = vlib.run_harness(run, args, **kw)
    line = [l for l in out.splitlines() if l.startswith("{")][-1]
    return json.loads(line)


def judge(run, verdicts, describe=None, known=None):
    """Turns TLC verdicts into violations / known findings.  `known(v)` returns a string for a
    verdict that is exactly a listed known finding."""
    nk = {}
    for v in verdicts:
        if v["kind"].startswith("harness:"):
            raise Infra("trace spec rejected a harness event as malformed: %s %s" % (v["kind"], json.dumps(v["event"])[:300]))
        k = known(v) if known else None
        if k:
            nk[k] = nk.get(k, 0) + 1
            continue
        ev = v["event"]
        if len(run.violations) >= 20:
            run.violations.append({"what": v["kind"], "replay": run.violations[0]["replay"]})
            continue
        name = re.sub(r"[^A-Za-z0-9]+", "_", (ev.get("src") or json.dumps(ev))[-60:])[:60] + "_%d" % len(run.violations)
        path = vlib.save_replay(run, name, {"property": run.pid, "verdict": v["kind"], "detail": v["detail"], "event": ev})
        what = "%s | %s" % (v["kind"], (describe(ev) if describe else ev.get("src", "")))
        run.violations.append({"what": what[:400], "replay": path})
    for k, n in sorted(nk.items()):
        run.known.append("%s (%d observations)" % (k, n))


def record_and_validate(run, hargs, module, prefix, pid=None, env=None):
    s = harness_json(run, hargs + ["-out", run.work, "-tier", run.tier, "-pid", pid or run.pid])
    verdicts = vlib.validate_trace(run, module, s["chunks"], pid=pid or run.pid, env=env, label=prefix)
    for x in s.get("samples", [])[:4]:
        run.samples.append(x)
    return s, verdicts


# ---------------------------------------------------------------------------
# C01  v3 base score
# ---------------------------------------------------------------------------
def check_C01(run):
    gen.ensure(run, ["v3base"], force=True)          # MC_V3Base: 5,184 evaluations + invariants
    gen.ensure(run, ["v3envinner"])
    s, verdicts = record_and_validate(run, ["v3base"], "Trace_V3", "v3base")
    judge(run, verdicts)
    if s["distinct"] < 5184:
        raise Infra("harness did not cover the whole base domain: %d" % s["distinct"])
    run.cov["decodes"] = s["extra"]["decodes"]
    run.cov["domain"] = "2 versions x 2,592 base vectors x 3 decoders x %d token orders" % s["extra"]["token_orders_per_decoder_variant"]
    run.assumptions += ["harness binding of exported constants to specification codes (v3tab.go)",
                        "token orders beyond canonical/reversed are seeded permutations"]
    return dict(level=MC, rule="every (version, base vector) decoded by the Base, Temporal and Environmental decoders in several token "
                "orders; an observation is (version, vector, level, score tenth, exactness, printed form, severity); identical observations "
                "are merged; non-trivial = distinct observation (all have C/I/A or scope variation by enumeration)",
                evaluations=s["observations"], distinct_nontrivial=s["distinct"], exhaustive=True)


# ---------------------------------------------------------------------------
# C02  v3 temporal score
# ---------------------------------------------------------------------------
def check_C02(run):
    gen.ensure(run, ["v3temporal"], force=True)      # MC_V3Temporal: whole temporal function + invariants
    gen.ensure(run, ["v3base", "v3envinner"])
    s, verdicts = record_and_validate(run, ["v3temporal"], "Trace_V3", "v3temporal")
    judge(run, verdicts)
    if s["distinct"] < 518400:
        raise Infra("harness did not cover the whole temporal domain: %d" % s["distinct"])
    run.cov["decodes"] = s["extra"]["decodes"]
    run.assumptions += ["harness binding of exported constants to specification codes (v3tab.go)"]
    return dict(level=MC, rule="every (version, base vector, E, RL, RC) = 518,400 vectors through the Temporal and Environmental decoders, "
                "X spelled and omitted, permuted tokens; distinct observations validated one by one by TLC against V3Score",
                evaluations=s["observations"], distinct_nontrivial=s["distinct"], exhaustive=True)


# ---------------------------------------------------------------------------
# C03  v3 environmental score
# ---------------------------------------------------------------------------
def check_C03(run):
    gen.ensure(run, ["v3envinner"], force=not run.quick)   # MC_V3Env: 16,128 exact evaluations + invariants
    gen.ensure(run, ["v3enveff", "v3temporal", "v3base"])
    args = ["v3env"]
    if not run.quick:
        args += ["-full", "-decodes", "5000000", "-raw", "2000000"]
    s, verdicts = record_and_validate(run, args, "Trace_V3", "v3env")
    judge(run, verdicts)
    x = s["extra"]
    run.cov.update(x)
    run.assumptions += ["harness composes TLC-emitted factor tables (Eff -> EnvInner -> TempOuter) for the part of the concrete product "
                        "TLC does not see event by event; the composition is cross-checked by TLC on the raw sample",
                        "harness binding of exported constants to specification codes (v3tab.go)"]
    return dict(level=MC, rule="(a) all 331,776 effective-value combinations x 100 temporal combinations by field assignment, each inner "
                "score validated by TLC and the outer step validated per distinct (version, inner, E, RL, RC, score) tuple; (b) the concrete "
                "product with Not Defined Modified metrics (%s) judged by composition of TLC-emitted tables, a seeded raw subset and every "
                "disagreement validated by TLC; (c) seeded random vectors through Decode with permuted/omitted tokens; distinct = distinct observation"
                % ("whole product" if x["concrete_product_full"] else "seeded sample"),
                evaluations=s["observations"], distinct_nontrivial=s["distinct"], exhaustive=bool(x["concrete_product_full"]))


# ---------------------------------------------------------------------------
# C04 / C05  v2 scores, with known finding KF-1
# ---------------------------------------------------------------------------
def kf1_matcher(pid):
    kf = [f for f in vlib.load_known()["findings"] if f["id"] == "KF-1" and pid in f["properties"]]
    if not kf:
        return None
    kf = kf[0]
    keys = {"base": set(kf["base_keys"]), "adj": set(kf["adj_keys"])}

    def known(v):
        m = re.match(r"kf1:(base|adj) (\S+)$", v["kind"])
        if m and m.group(2) in keys[m.group(1)]:
            return "KF-1 %s [%s; sites: v2/metric/base.go Base.Score/Base.score, v2/metric/environmental.go Environmental.Score]" % (
                kf["title"], "listed %s-equation keys" % m.group(1))
        return None
    return known


def check_C04(run):
    gen.ensure(run, ["v2tabs"], force=True)          # MC_V2: 270 + 2,268 exact evaluations + invariants
    s, verdicts = record_and_validate(run, ["v2bt"], "Trace_V2", "v2bt")
    judge(run, verdicts, known=kf1_matcher("C04"))
    if s["distinct"] < 729 + 73629:
        raise Infra("harness did not cover the whole base/temporal domain: %d" % s["distinct"])
    run.cov["decodes"] = s["extra"]["decodes"]
    run.assumptions += ["harness binding of exported constants to specification codes (v2tab.go)"]
    return dict(level=MC, rule="all 729 base vectors x (100 temporal combinations + group absent) = 73,629 vectors through the Base, Temporal and "
                "Environmental decoders (environmental group absent and present); every distinct observation validated by TLC: observed tenth in "
                "the set the FIRST equations admit (exact halves may go either way)",
                evaluations=s["observations"], distinct_nontrivial=s["distinct"], exhaustive=True)


def check_C05(run):
    gen.ensure(run, ["v2tabs"], force=not run.quick)
    args = ["v2env", "-decodes", "600000" if run.quick else "20000000"]
    s, verdicts = record_and_validate(run, args, "Trace_V2", "v2env")
    judge(run, verdicts, known=kf1_matcher("C05"))
    run.cov.update(s["extra"])
    run.assumptions += ["the outer steps (temporal multipliers, CDP, TD) are validated as tuples relative to the adjusted base score the library "
                        "itself exposes with the temporal group absent and CDP:ND/TD:ND; that score is validated against the exact equation for all "
                        "46,656 (base, CR, IR, AR) combinations",
                        "harness binding of exported constants to specification codes (v2tab.go)"]
    return dict(level=MC, rule="whole v2 environmental domain 729 x 101 x 1,920 by field assignment on decoded carriers: stage 1 = adjusted base "
                "score of every (base, CR, IR, AR), stage 2 = every (adjusted base, temporal, CDP, TD, score) tuple; plus seeded random vectors of "
                "all group patterns through Decode; distinct = distinct observation",
                evaluations=s["extra"]["assigned_evaluations"] + s["extra"]["decoded"], distinct_nontrivial=s["distinct"], exhaustive=True)


CHECKS = {"C04": check_C04, "C05": check_C05, "C03": check_C03, "C01": check_C01, "C02": check_C02}
