"""Per-property pipelines.  Each check_<ID>(run) runs: spec-level model checking (TLC),
conformance recording (Go harness against /repo), trace validation (TLC), and returns the
arguments for vlib.finish()."""
import glob, json, os, re
import vlib, gen
from vlib import Infra, log

MC = "model_checking"
EXPL = "exploration"


def harness_json(run, args, **kw):
    out = vlib.run_harness(run, args, **kw)
    line = [l for l in out.splitlines() if l.startswith("{")][-1]
    return json.loads(line)


def judge(run, verdicts, describe=None, known=None):
    """Turns TLC verdicts into violations / known findings.  `known(v)` returns a string for a
    verdict that is exactly a listed known finding."""
    nk = {}
    for v in verdicts:
        if v["kind"].startswith("harness:"):
            raise Infra("trace spec rejected a harness event as malformed: %s %s" % (v["kind"], json.dumps(v["event"])[:300]))
        k = known(v) if known else None
        if k:
            nk[k] = nk.get(k, 0) + 1
            continue
        ev = v["event"]
        if len(run.violations) >= 20:
            run.violations.append({"what": v["kind"], "replay": run.violations[0]["replay"]})
            continue
        name = re.sub(r"[^A-Za-z0-9]+", "_", (ev.get("src") or json.dumps(ev))[-60:])[:60] + "_%d" % len(run.violations)
        path = vlib.save_replay(run, name, {"property": run.pid, "verdict": v["kind"], "detail": v["detail"], "event": ev})
        what = "%s | %s" % (v["kind"], (describe(ev) if describe else ev.get("src", "")))
        run.violations.append({"what": what[:400], "replay": path})
    for k, n in sorted(nk.items()):
        run.known.append("%s (%d observations)" % (k, n))


def record_and_validate(run, hargs, module, prefix, pid=None, env=None):
    s = harness_json(run, hargs + ["-out", run.work, "-tier", run.tier, "-pid", pid or run.pid])
    verdicts = vlib.validate_trace(run, module, s["chunks"], pid=pid or run.pid, env=env, label=prefix)
    for x in s.get("samples", [])[:4]:
        run.samples.append(x)
    return s, verdicts


# ---------------------------------------------------------------------------
# C01  v3 base score
# ---------------------------------------------------------------------------
def check_C01(run):
    gen.ensure(run, ["v3base"], force=True)          # MC_V3Base: 5,184 evaluations + invariants
    gen.ensure(run, ["v3envinner"])
    s, verdicts = record_and_validate(run, ["v3base"], "Trace_V3", "v3base")
    judge(run, verdicts)
    if s["distinct"] < 5184:
        raise Infra("harness did not cover the whole base domain: %d" % s["distinct"])
    run.cov["decodes"] = s["extra"]["decodes"]
    run.cov["domain"] = "2 versions x 2,592 base vectors x 3 decoders x %d token orders" % s["extra"]["token_orders_per_decoder_variant"]
    run.assumptions += ["harness binding of exported constants to specification codes (v3tab.go)",
                        "token orders beyond canonical/reversed are seeded permutations"]
    return dict(level=MC, rule="every (version, base vector) decoded by the Base, Temporal and Environmental decoders in several token "
                "orders; an observation is (version, vector, level, score tenth, exactness, printed form, severity); identical observations "
                "are merged; non-trivial = distinct observation (all have C/I/A or scope variation by enumeration)",
                evaluations=s["observations"], distinct_nontrivial=s["distinct"], exhaustive=True)


# ---------------------------------------------------------------------------
# C02  v3 temporal score
# ---------------------------------------------------------------------------
def check_C02(run):
    gen.ensure(run, ["v3temporal"], force=True)      # MC_V3Temporal: whole temporal function + invariants
    gen.ensure(run, ["v3base", "v3envinner"])
    s, verdicts = record_and_validate(run, ["v3temporal"], "Trace_V3", "v3temporal")
    judge(run, verdicts)
    if s["distinct"] < 518400:
        raise Infra("harness did not cover the whole temporal domain: %d" % s["distinct"])
    run.cov["decodes"] = s["extra"]["decodes"]
    run.assumptions += ["harness binding of exported constants to specification codes (v3tab.go)"]
    return dict(level=MC, rule="every (version, base vector, E, RL, RC) = 518,400 vectors through the Temporal and Environmental decoders, "
                "X spelled and omitted, permuted tokens; distinct observations validated one by one by TLC against V3Score",
                evaluations=s["observations"], distinct_nontrivial=s["distinct"], exhaustive=True)


CHECKS = {"C01": check_C01, "C02": check_C02}
