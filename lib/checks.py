"""Per-property pipelines.  Each check_<ID>(run) runs: spec-level model checking (TLC),
conformance recording (Go harness against /repo), trace validation (TLC), and returns the
arguments for vlib.finish()."""
import glob, json, os, re
import vlib, gen
from vlib import Infra, log

MC = "model_checking"
EXPL = "exploration"


def harness_json(run, args, **kw):
    out = vlib.run_harness(run, args, **kw)
    line = [l for l in out.splitlines() if l.startswith("{")][-1]
    s = json.loads(line)
    for i, pn in enumerate(s.get("panics") or []):
        # the library panicked on an input the harness generated (each goroutine of the harness works on its own objects):
        # whatever the property, the result it speaks of was not delivered
        path = vlib.save_replay(run, "panic_%d" % i, {"property": run.pid, "kind": "library-panic", "harness_args": args, "seed": run.seed, "panic": pn})
        run.violations.append({"what": "the library panicked while the harness was recording (%s): %s" % (" ".join(args[:1]), pn.split("\\n")[0][:200]), "replay": path})
    return s


def judge(run, verdicts, describe=None, known=None):
    """Turns TLC verdicts into violations / known findings.  `known(v)` returns a string for a
    verdict that is exactly a listed known finding."""
    nk = {}
    for v in verdicts:
        if v["kind"].startswith("harness:"):
            raise Infra("trace spec rejected a harness event as malformed: %s %s" % (v["kind"], json.dumps(v["event"])[:300]))
        if v["kind"].startswith("drift:"):
            # implementation-shaped layer disagrees: MODEL-DRIFT diagnostic, never a violation (DESIGN section 5, rule 4)
            run.cov["model_drift"] = run.cov.get("model_drift", 0) + 1
            run.cov.setdefault("model_drift_samples", [])
            if len(run.cov["model_drift_samples"]) < 5:
                run.cov["model_drift_samples"].append(v["kind"][:300])
            continue
        k = known(v) if known else None
        if k:
            nk[k] = nk.get(k, 0) + 1
            continue
        ev = v["event"]
        if len(run.violations) >= 20:
            run.violations.append({"what": v["kind"], "replay": run.violations[0]["replay"]})
            continue
        name = re.sub(r"[^A-Za-z0-9]+", "_", (ev.get("src") or json.dumps(ev))[-60:])[:60] + "_%d" % len(run.violations)
        path = vlib.save_replay(run, name, {"property": run.pid, "verdict": v["kind"], "detail": v["detail"], "event": ev})
        what = "%s | %s" % (v["kind"], (describe(ev) if describe else ev.get("src", "")))
        run.violations.append({"what": what[:400], "replay": path})
    for k, n in sorted(nk.items()):
        run.known.append("%s (%d observations)" % (k, n))


def record_and_validate(run, hargs, module, prefix, pid=None, env=None):
    s = harness_json(run, hargs + ["-out", run.work, "-tier", run.tier, "-pid", pid or run.pid])
    verdicts = vlib.validate_trace(run, module, s["chunks"], pid=pid or run.pid, env=env, label=prefix)
    for x in s.get("samples", [])[:4]:
        run.samples.append(x)
    return s, verdicts


# ---------------------------------------------------------------------------
# C01  v3 base score
# ---------------------------------------------------------------------------
def check_C01(run):
    gen.ensure(run, ["v3base"], force=True)          # MC_V3Base: 5,184 evaluations + invariants
    gen.ensure(run, ["v3envinner"])
    s, verdicts = record_and_validate(run, ["v3base"], "Trace_V3", "v3base")
    judge(run, verdicts)
    if s["distinct"] < 5184:
        raise Infra("harness did not cover the whole base domain: %d" % s["distinct"])
    run.cov["decodes"] = s["extra"]["decodes"]
    run.cov["domain"] = "2 versions x 2,592 base vectors x 3 decoders x %d token orders" % s["extra"]["token_orders_per_decoder_variant"]
    run.assumptions += ["harness binding of exported constants to specification codes (v3tab.go)",
                        "token orders beyond canonical/reversed are seeded permutations"]
    return dict(level=MC, rule="every (version, base vector) decoded by the Base, Temporal and Environmental decoders in several token "
                "orders; an observation is (version, vector, level, score tenth, exactness, printed form, severity); identical observations "
                "are merged; non-trivial = distinct observation (all have C/I/A or scope variation by enumeration)",
                evaluations=s["observations"], distinct_nontrivial=s["distinct"], exhaustive=True)


# ---------------------------------------------------------------------------
# C02  v3 temporal score
# ---------------------------------------------------------------------------
def check_C02(run):
    gen.ensure(run, ["v3temporal"], force=True)      # MC_V3Temporal: whole temporal function + invariants
    gen.ensure(run, ["v3base", "v3envinner"])
    s, verdicts = record_and_validate(run, ["v3temporal"], "Trace_V3", "v3temporal")
    judge(run, verdicts)
    if s["distinct"] < 518400:
        raise Infra("harness did not cover the whole temporal domain: %d" % s["distinct"])
    run.cov["decodes"] = s["extra"]["decodes"]
    run.assumptions += ["harness binding of exported constants to specification codes (v3tab.go)"]
    return dict(level=MC, rule="every (version, base vector, E, RL, RC) = 518,400 vectors through the Temporal and Environmental decoders, "
                "X spelled and omitted, permuted tokens; distinct observations validated one by one by TLC against V3Score",
                evaluations=s["observations"], distinct_nontrivial=s["distinct"], exhaustive=True)


# ---------------------------------------------------------------------------
# C03  v3 environmental score
# ---------------------------------------------------------------------------
def check_C03(run):
    gen.ensure(run, ["v3envinner"], force=not run.quick)   # MC_V3Env: 16,128 exact evaluations + invariants
    gen.ensure(run, ["v3enveff", "v3temporal", "v3base"])
    args = ["v3env"]
    if not run.quick:
        args += ["-full", "-decodes", "5000000", "-raw", "2000000"]
    s, verdicts = record_and_validate(run, args, "Trace_V3", "v3env")
    judge(run, verdicts)
    x = s["extra"]
    run.cov.update(x)
    run.assumptions += ["harness composes TLC-emitted factor tables (Eff -> EnvInner -> TempOuter) for the part of the concrete product "
                        "TLC does not see event by event; the composition is cross-checked by TLC on the raw sample",
                        "harness binding of exported constants to specification codes (v3tab.go)"]
    return dict(level=MC, rule="(a) all 331,776 effective-value combinations x 100 temporal combinations by field assignment, each inner "
                "score validated by TLC and the outer step validated per distinct (version, inner, E, RL, RC, score) tuple; (b) the concrete "
                "product with Not Defined Modified metrics (%s) judged by composition of TLC-emitted tables, a seeded raw subset and every "
                "disagreement validated by TLC; (c) seeded random vectors through Decode with permuted/omitted tokens; distinct = distinct observation"
                % ("whole product" if x["concrete_product_full"] else "seeded sample"),
                evaluations=x["eff_domain_x_temporal"] + x["concrete_product_scanned"] + x["decoded"] + x.get("all_not_defined_spellings_decoded", 0),
                distinct_nontrivial=s["distinct"], exhaustive=bool(x["concrete_product_full"]))


# ---------------------------------------------------------------------------
# C04 / C05  v2 scores, with known finding KF-1
# ---------------------------------------------------------------------------
def kf1_matcher(pid):
    kf = [f for f in vlib.load_known()["findings"] if f["id"] == "KF-1" and pid in f["properties"]]
    if not kf:
        return None
    kf = kf[0]
    keys = {"base": set(kf["base_keys"]), "adj": set(kf["adj_keys"])}

    def known(v):
        m = re.match(r"kf1:(base|adj) (\S+)$", v["kind"])
        if m and m.group(2) in keys[m.group(1)]:
            return "KF-1 %s [%s; sites: v2/metric/base.go Base.Score/Base.score, v2/metric/environmental.go Environmental.Score]" % (
                kf["title"], "listed %s-equation keys" % m.group(1))
        return None
    return known


def check_C04(run):
    gen.ensure(run, ["v2tabs"], force=True)          # MC_V2: 270 + 2,268 exact evaluations + invariants
    s, verdicts = record_and_validate(run, ["v2bt"], "Trace_V2", "v2bt")
    judge(run, verdicts, known=kf1_matcher("C04"))
    if s["distinct"] < 729 + 73629:
        raise Infra("harness did not cover the whole base/temporal domain: %d" % s["distinct"])
    run.cov["decodes"] = s["extra"]["decodes"]
    run.assumptions += ["harness binding of exported constants to specification codes (v2tab.go)"]
    return dict(level=MC, rule="all 729 base vectors x (100 temporal combinations + group absent) = 73,629 vectors through the Base, Temporal and "
                "Environmental decoders (environmental group absent and present); every distinct observation validated by TLC: observed tenth in "
                "the set the FIRST equations admit (exact halves may go either way)",
                evaluations=s["observations"], distinct_nontrivial=s["distinct"], exhaustive=True)


def check_C05(run):
    gen.ensure(run, ["v2tabs"], force=not run.quick)
    args = ["v2env", "-decodes", "600000" if run.quick else "20000000"]
    s, verdicts = record_and_validate(run, args, "Trace_V2", "v2env")
    judge(run, verdicts, known=kf1_matcher("C05"))
    run.cov.update(s["extra"])
    run.assumptions += ["the outer steps (temporal multipliers, CDP, TD) are validated as tuples relative to the adjusted base score the library "
                        "itself exposes with the temporal group absent and CDP:ND/TD:ND; that score is validated against the exact equation for all "
                        "46,656 (base, CR, IR, AR) combinations",
                        "harness binding of exported constants to specification codes (v2tab.go)"]
    return dict(level=MC, rule="whole v2 environmental domain 729 x 101 x 1,920 by field assignment on decoded carriers: stage 1 = adjusted base "
                "score of every (base, CR, IR, AR), stage 2 = every (adjusted base, temporal, CDP, TD, score) tuple; plus seeded random vectors of "
                "all group patterns through Decode; distinct = distinct observation",
                evaluations=s["extra"]["assigned_evaluations"] + s["extra"]["decoded"], distinct_nontrivial=s["distinct"], exhaustive=True)


# ---------------------------------------------------------------------------
# C20  codes, enumeration values, weights
# ---------------------------------------------------------------------------
def check_C20(run):
    gen.ensure(run, ["tables"], force=True)           # MC_Tables: transcription sanity (ASSUMEs)
    s, verdicts = record_and_validate(run, ["tables", "-chunks", "4"], "Trace_Tables", "tables")
    judge(run, verdicts)
    run.cov.update(s["extra"])
    run.assumptions += ["harness binding of exported constants to specification codes (v3tab.go, v2tab.go), itself validated against "
                        "CvssTables by the 'defs' events"]
    return dict(level=MC, rule="all 22 v3 and 14 v2 metric types and both version parsers: Get*(s) for every code of every metric plus "
                "lower-case, padded, doubled, foreign and random strings; String(), validity predicate and Value(...) (every scope / base value / "
                "modified-scope context) for enumeration integers -2..9; each probe is one event validated by TLC against CvssTables",
                evaluations=s["observations"], distinct_nontrivial=s["distinct"], exhaustive=True)


# ---------------------------------------------------------------------------
# C06  tenth grid and severity bands
# ---------------------------------------------------------------------------
def check_C06(run):
    gen.ensure(run, ["tables"], force=True)           # band partition ASSUMEs
    gen.ensure(run, ["v2neg", "v3enveff", "v3temporal"])
    chunks, obs, ndist = [], 0, 0
    events = []
    cmds = [["v3base"], ["v3temporal"], ["v3env", "-decodes", "100000", "-sample", "100000000" if run.quick else "2000000000"],
            ["v2bt"], ["v2env", "-decodes", "200000" if run.quick else "5000000"],
            ["v3reportscores", "-n", "200000" if run.quick else "3000000"]]
    for c in cmds:
        s = harness_json(run, c + ["-out", run.work, "-tier", run.tier, "-pid", "C06", "-chunks", "1"])
        obs += s["observations"]
        ndist += s["distinct"]
        chunks += s["chunks"]
        for p in s["chunks"]:
            events += vlib.read_ndjson(p)
    allp = run.path("grid.all.ndjson")
    vlib.write_ndjson(allp, [e for e in events if e["k"] != "v2"])
    verdicts = vlib.validate_trace(run, "Trace_Grid", [allp], label="grid")
    judge(run, verdicts)
    # v2 vectors whose adjusted base equation is negative: full events, judged by Trace_V2
    negev = [e for e in events if e["k"] == "v2"]
    if negev:
        per = max(1, len(negev) // 16 + 1)
        paths = []
        for i in range(0, len(negev), per):
            pth = run.path("gridneg.%d.ndjson" % (i // per))
            vlib.write_ndjson(pth, negev[i:i + per])
            paths.append(pth)
        judge(run, vlib.validate_trace(run, "Trace_V2", paths, pid="C06", label="gridneg"))
    run.cov["negative_adjusted_base_vectors_judged_individually"] = len(negev)
    # which grid values / band edges were attained, per family and level (from the validated tuples)
    att = {}
    for e in events:
        if e["k"] == "g":
            att.setdefault(e["fam"] + "." + e["lvl"], set()).add(e["obs"])
    edges = [0, 1, 39, 40, 69, 70, 89, 90, 100]
    run.cov["attained_values_per_level"] = {k: len(v) for k, v in sorted(att.items())}
    run.cov["band_edges_attained"] = {k: [x for x in edges if x in v] for k, v in sorted(att.items())}
    run.samples += events[:: max(1, len(events) // 8)][:8]
    run.assumptions += ["v2 environmental vectors whose adjusted base equation is negative (list emitted by TLC, MC_V2Neg) are not collapsed into tuples but judged one by one by TLC",
                        "a severity/band slip at a score value that no vector attains is not detectable (and does not break the property)"]
    return dict(level=MC, rule="every score of every level and version reached by the C01-C05 scans (all base and temporal vectors, the v3 "
                "effective x temporal product and a seeded sample of the concrete product, the whole v2 environmental domain) plus the report score "
                "fields, collapsed into distinct (family, level, tenth, exactness, printed form, severity, negative-equation) tuples; each tuple judged by TLC",
                evaluations=obs, distinct_nontrivial=len(events), exhaustive=False)


# ---------------------------------------------------------------------------
# C13  Not Defined is neutral, temporal <= base
# ---------------------------------------------------------------------------
def check_C13(run):
    gen.ensure(run, ["v3temporal"], force=True)       # spec-level: TemporalLeBase, AllNDIsIdentity, XIsNeutral
    s, verdicts = record_and_validate(run, ["rel13"], "Trace_Grid", "rel13")
    judge(run, verdicts)
    run.cov.update(s["extra"])
    return dict(level=MC, rule="temporal(all ND, every spelled/omitted pattern) = base on all 5,184 v3 and 729 v2 base vectors; v3 environmental(all ND) "
                "= temporal on all 518,400 vectors except v3.1 scope-changed; temporal <= base on all 518,400 + 72,900 vectors; v2 TD:N => 0 on all "
                "729 x 101 x 384 vectors; collapsed into distinct (relation, version, scope, lower, upper) tuples judged by TLC",
                evaluations=s["observations"], distinct_nontrivial=s["distinct"], exhaustive=True)


# ---------------------------------------------------------------------------
# C07-C11, C14: the vector-string language (Vector.tla, MC_Lang, Trace_Lang)
# ---------------------------------------------------------------------------
def tlc_strings(run, fam, mode, depth, seeds, tag):
    """Runs the generator model MC_Lang and returns (path of NDJSON strings, number of strings)."""
    res = vlib.run_tlc(run, "MC_Lang", dump=True, tag=tag,
                       env={"VERIF_FAM": fam, "VERIF_MODE": mode, "VERIF_DEPTH": depth, "VERIF_SEEDS": seeds}, timeout=3000)
    out = run.path("strings-%s.ndjson" % tag)
    seen = set()
    with open(out, "w") as f:
        for m in re.finditer(r'^/\\ s = "((?:[^"\\\\]|\\\\.)*)"$', open(res["dump"]).read(), re.M):
            t = m.group(1).replace('\\\\', '\\').replace('\\"', '"')
            if t not in seen:
                seen.add(t)
                f.write(json.dumps({"s": t}) + "\n")
    return out, len(seen)


def lang_check(run, fams, pid_for, modes, deep, valid, edits, nbytes, allbt=False):
    """modes: list of (mode, depth, seeds).  Returns (observations, distinct events, strings from TLC)."""
    tot_obs = tot_dist = tot_tlc = 0
    for fam in fams:
        files = []
        for (mode, depth, seeds) in modes:
            p, n = tlc_strings(run, fam, mode, depth, seeds, "lang-%s-%s%s" % (fam, mode, depth))
            files.append(p)
            tot_tlc += n
        allin = run.path("strings-%s.ndjson" % fam)
        with open(allin, "w") as o:
            for p in files:
                o.write(open(p).read())
        s = harness_json(run, ["lang", "-fam", fam, "-in", allin, "-valid", str(valid), "-edits", str(edits), "-bytes", str(nbytes), "-steps", "4000",
                               "-deep=%s" % ("true" if deep else "false"), "-allbt=%s" % ("true" if allbt else "false"),
                               "-out", run.work, "-tier", run.tier, "-pid", run.pid])
        verdicts = vlib.validate_trace(run, "Trace_Lang", s["chunks"], pid=pid_for(fam), label="lang-" + fam)
        judge(run, verdicts, describe=lambda ev: (ev.get("s") or ev.get("a", {}).get("s", ""))[:200])
        tot_obs += s["observations"]
        tot_dist += s["distinct"]
        run.cov.setdefault("per_family", {})[fam] = s["extra"]
        run.samples += [json.loads(json.dumps(x))["s"] if isinstance(x, dict) and "s" in x else x for x in s.get("samples", [])[:3]]
    run.cov["strings_from_tlc_exploration"] = tot_tlc
    return tot_obs, tot_dist, tot_tlc


def lang_modes(run):
    if run.quick:
        return [("char", "1", "all"), ("token", "1", "all")]
    # token-level depth 2 is 6.2e6 strings for one v2 seed (measured): beyond what can be replayed and validated
    return [("char", "1", "all"), ("token", "1", "all"), ("char", "2", "base")]


LANG_RULE = ("inputs: (i) every string TLC reaches in MC_Lang (character-level and token-level edit neighbourhoods of the seed vectors, "
             "quick: 1 edit of every seed, thorough: + 2 character edits of the base seed), (ii) seeded random accepted vectors of all levels with "
             "permuted/omitted tokens, (iii) seeded random edits of those, (iv) seeded random byte strings and hand-picked degenerate strings; "
             "each input x the three decoders of the family is one event validated by TLC against Vector.tla; distinct = distinct event")


def check_C07(run):
    obs, dist, n = lang_check(run, ["v3"], lambda f: "C07", lang_modes(run), False, 20000 if run.quick else 300000,
                              30000 if run.quick else 500000, 10000 if run.quick else 200000)
    return dict(level=MC, rule=LANG_RULE, evaluations=obs, distinct_nontrivial=dist, exhaustive=False)


def check_C08(run):
    obs, dist, n = lang_check(run, ["v2"], lambda f: "C08", lang_modes(run), False, 20000 if run.quick else 300000,
                              30000 if run.quick else 500000, 10000 if run.quick else 200000)
    return dict(level=MC, rule=LANG_RULE, evaluations=obs, distinct_nontrivial=dist, exhaustive=False)


def _lang_both(run, deep, allbt=False):
    modes = [("token", "1", "all")] if run.quick else [("token", "1", "all"), ("char", "1", "all"), ("char", "2", "base")]
    return lang_check(run, ["v3", "v2"], lambda f: run.pid, modes, deep, 40000 if run.quick else 1000000,
                      20000 if run.quick else 300000, 2000 if run.quick else 50000, allbt=allbt)


def check_C09(run):
    obs, dist, n = _lang_both(run, False)
    return dict(level=MC, rule=LANG_RULE + "; for C09 additionally pairs of two spellings (order, X spelled/omitted) of one token set",
                evaluations=obs, distinct_nontrivial=dist, exhaustive=False)


def check_C10(run):
    obs, dist, n = _lang_both(run, True)
    return dict(level=MC, rule=LANG_RULE + "; accepted inputs are encoded, printed and decoded again", evaluations=obs, distinct_nontrivial=dist, exhaustive=False)


def check_C11(run):
    obs, dist, n = lang_check(run, ["v3", "v2"], lambda f: "C11", lang_modes(run), False, 5000 if run.quick else 50000,
                              40000 if run.quick else 800000, 10000 if run.quick else 300000)
    return dict(level=MC, rule=LANG_RULE + "; every rejection's errors.Is vector over the eleven exported sentinels is recorded",
                evaluations=obs, distinct_nontrivial=dist, exhaustive=False)


def check_C14(run):
    obs, dist, n = _lang_both(run, True, allbt=True)
    return dict(level=MC, rule=LANG_RULE + "; for accepted inputs the lower-level views and an independent lower-level decode of the projected "
                "vector are recorded; all 73,629 v2 base/temporal vectors (a seventh also with an environmental group) and every v3 base vector "
                "with seeded temporal / environmental values are included", evaluations=obs, distinct_nontrivial=dist, exhaustive=False)


# ---------------------------------------------------------------------------
# C17 / C18: report fields, display names (Report.tla, Trace_Report)
# ---------------------------------------------------------------------------
def check_C17(run):
    gen.ensure(run, ["tables"])
    s, verdicts = record_and_validate(run, ["report", "-n", "10000" if run.quick else "200000"], "Trace_Report", "report")
    judge(run, verdicts, describe=lambda ev: "%s report in %s of %s" % (ev.get("lvl"), ev.get("lang"), ev.get("s")))
    run.samples = [{"lvl": x["lvl"], "lang": x["lang"], "s": x["s"], "rep_fields": len(x["rep"])} for x in s.get("samples", [])[:5] if isinstance(x, dict)]
    run.assumptions += ["expected titles / value names are what the names package returns for the like-named metric and the object's own field "
                        "value (the table itself is C18's subject); vectors are drawn so that neighbouring metrics differ where their code sets allow"]
    return dict(level=MC, rule="reports of all 5,184 base vectors (en, ja and one further language each) and of seeded temporal / environmental "
                "vectors in {en, ja, und, fr, de, zh}; every exported field incl. the embedded reports and the shadowed unqualified names is "
                "compared by TLC with Report!ExpectedReport; one event per report",
                evaluations=s["observations"], distinct_nontrivial=s["distinct"], exhaustive=False)


def check_C18(run):
    gen.ensure(run, ["tables"])
    s, verdicts = record_and_validate(run, ["names"], "Trace_Report", "names")
    judge(run, verdicts, describe=lambda ev: "%s in %s" % (ev.get("m"), ev.get("lang")))
    run.cov.update(s["extra"])
    run.samples = [{"lang": x["lang"], "m": x["m"], "title": x["title"], "vals": x["vals"]} for x in s.get("samples", [])[:5] if isinstance(x, dict)]
    run.assumptions += ["regional variants of English / Japanese tags are not probed (the property leaves them unspecified)"]
    return dict(level=MC, rule="all 23 title functions, 23 value-name functions (enumeration integers -2..8) and 6 group-title functions x 10 "
                "language tags (en, ja, und, fr, de, zh, ko, es, ru, ar); one aggregated event per (language, metric) judged by TLC against the "
                "relational specification (non-empty, injective per metric and language, Modified = base names, common Unknown, English fallback)",
                evaluations=s["extra"]["function_calls"], distinct_nontrivial=s["distinct"], exhaustive=True)


# ---------------------------------------------------------------------------
# C12 / C15: the Objects machine (Objects.tla, MC_Objects, Trace_Objects)
# ---------------------------------------------------------------------------
def object_histories(run, pid, reps):
    res = vlib.run_tlc(run, "MC_Objects", dump=True)
    pre = run.path("prefixes.ndjson")
    n = 0
    with open(pre, "w") as f:
        for st in vlib.parse_dump(res["dump"]):
            if st["hist"]:
                f.write(json.dumps({"fam": st["fam"], "lvl": st["lvl"], "hist": st["hist"]}) + "\n")
                n += 1
    s = harness_json(run, ["objects", "-in", pre, "-reps", str(reps), "-out", run.work, "-tier", run.tier, "-pid", pid])
    verdicts = vlib.validate_trace(run, "Trace_Objects", s["chunks"], pid=pid, label="objects")
    judge(run, verdicts, describe=lambda ev: "history %s step %s: %s" % (ev.get("h"), ev.get("i"), json.dumps(ev.get("op"))))
    run.cov["receiver_state_prefixes_from_tlc"] = n
    run.cov["history_steps"] = s["distinct"]
    run.samples += [x.get("op") for x in s.get("samples", [])[:4] if isinstance(x, dict)]
    return s


def check_C12(run):
    s = object_histories(run, "C12", 2)
    obs, dist = s["observations"], s["distinct"]
    for fam in ("v3", "v2"):
        modes = [("char", "1", "base")] if run.quick else [("char", "1", "all"), ("token", "1", "all")]
        files = [tlc_strings(run, fam, m, d, sd, "c12-%s-%s%s" % (fam, m, d))[0] for (m, d, sd) in modes]
        allin = run.path("c12-strings-%s.ndjson" % fam)
        with open(allin, "w") as o:
            for p in files:
                o.write(open(p).read())
        h = harness_json(run, ["lang", "-fam", fam, "-in", allin, "-valid", "3000", "-edits", "20000" if run.quick else "300000",
                               "-bytes", "40000" if run.quick else "1000000", "-deep=false", "-nilrecv", "-long", "24" if run.quick else "200",
                               "-out", run.work, "-tier", run.tier, "-pid", "C12"])
        verdicts = vlib.validate_trace(run, "Trace_Lang", h["chunks"], pid="C12", label="c12-" + fam)
        judge(run, verdicts, describe=lambda ev: ev.get("s", "")[:200])
        obs += h["observations"]
        dist += h["distinct"]
        run.cov.setdefault("decode_inputs", {})[fam] = h["extra"]
    run.assumptions += ["'any bytes, any length' is sampled: seeded random byte strings (length 0-64), edits of valid vectors, degenerate and long inputs "
                        "(thousands of separators, 1-8 MiB); inputs longer than 300 bytes are judged for panic and object-xor-error only",
                        "the state a failed Decode leaves in its receiver is unspecified: queries on it must not panic; if it shows an unknown "
                        "value the invalid-object rule applies"]
    return dict(level=EXPL, rule="(a) every receiver state MC_Objects reaches (6 object kinds x {constructor, nil} x 14 decode inputs x field / version "
                "resets) followed by every query through every accessor, each step validated by TLC against Objects.tla; (b) seeded random and "
                "TLC-explored strings through all six decoders via constructor and via nil receiver; distinct = distinct recorded event",
                evaluations=obs, distinct_nontrivial=dist, exhaustive=False)


def check_C15(run):
    s = object_histories(run, "C15", 3)
    # the same vectors in three processing orders, each in a FRESH process; joined per vector for TLC
    per = {}
    for od in ("fwd", "rev", "shuf"):
        o = harness_json(run, ["orders", "-n", "2000" if run.quick else "60000", "-order", od, "-out", run.work, "-tier", run.tier, "-pid", "C15"])
        for e in vlib.read_ndjson(o["chunks"][0]):
            per.setdefault(e["idx"], {"k": "order", "fam": e["fam"], "lvl": e["lvl"], "s": e["s"]})[{"fwd": "a", "rev": "b", "shuf": "c"}[od]] = e["r"]
    joined = [v for k, v in sorted(per.items()) if all(x in v for x in "abc")]
    if len(joined) != len(per):
        raise Infra("orders: the three processes did not process the same vectors")
    nchunk = 16
    paths = []
    for i in range(nchunk):
        pth = run.path("orders.%d.ndjson" % i)
        vlib.write_ndjson(pth, joined[i::nchunk])
        paths.append(pth)
    o["observations"], o["distinct"] = len(joined), len(joined)
    # every query repeated on one object and on a second one, over the v2 base/temporal domain and seeded v2/v3 environmental vectors
    rp = harness_json(run, ["repeat", "-reps", "6" if run.quick else "24", "-out", run.work, "-tier", run.tier, "-pid", "C15"])
    rv = vlib.validate_trace(run, "Trace_Objects", rp["chunks"], pid="C15", label="repeat")
    judge(run, rv, describe=lambda ev: ev.get("s", ""))
    run.cov["vectors_with_repeated_queries"] = rp["extra"]["vectors_probed"]
    verdicts = vlib.validate_trace(run, "Trace_Objects", paths, pid="C15", label="orders")
    judge(run, verdicts, describe=lambda ev: ev.get("s", "")[:200])
    run.cov.update(o["extra"])
    run.assumptions += ["object state = exported fields (read through the harness constant tables) + the unexported names maps (read by reflection) "
                        "+ a digest of every package-level table as observable through the public API"]
    return dict(level=MC, rule="every history MC_Objects generates is executed; after each step the snapshot of every live object and the table digest "
                "are recorded; TLC checks each query as a stuttering step of Objects (snapshots and tables UNCHANGED), that repeated calls agree and "
                "that the result equals the one of a freshly decoded twin; plus %d vectors (with near-duplicates: other version, other level, one edit) "
                "decoded in three processing orders (each in a fresh process) with report construction interleaved" % o["extra"]["vectors"],
                evaluations=s["observations"] + o["observations"] * 3, distinct_nontrivial=s["distinct"] + o["distinct"], exhaustive=False)


# ---------------------------------------------------------------------------
# C19: template export (Template.tla, MC_Template, Trace_Template)
# ---------------------------------------------------------------------------
def check_C19(run):
    res = vlib.run_tlc(run, "MC_Template", dump=True, env={"VERIF_DEPTH": "2" if run.quick else "3"}, timeout=3000)
    dumps = [res["dump"]]
    if not run.quick:
        # deeper, over the core of the alphabet: the segment kinds that interact with their neighbours
        dumps.append(vlib.run_tlc(run, "MC_Template", dump=True, env={"VERIF_DEPTH": "4c"}, timeout=3000, tag="MC_Template-core4")["dump"])
    tp = run.path("templates.ndjson")
    n = 0
    seen = set()
    with open(tp, "w") as f:
        for d in dumps:
            for st in vlib.parse_dump(d):
                if st["segs"] and st["src"] not in seen:
                    seen.add(st["src"])
                    f.write(json.dumps({"segs": st["segs"], "src": st["src"]}) + "\n")
                    n += 1
    s, verdicts = record_and_validate(run, ["tmpl", "-in", tp, "-reports", "6" if run.quick else "3"], "Trace_Template", "tmpl")
    judge(run, verdicts, describe=lambda ev: "%s report (%s), %s export of %r" % (ev.get("lvl"), ev.get("lang"), ev.get("mode"), ev.get("text")))
    run.cov.update(s["extra"])
    run.samples = [{"text": x["text"], "lvl": x["lvl"], "mode": x["mode"], "ok": x["ok"], "out": x["out"][:80]} for x in s.get("samples", [])[:6] if isinstance(x, dict)]
    run.assumptions += ["templates outside the modelled grammar are judged against Go's text/template executed directly on the same report "
                        "(recorded in the trace as the environment function), exactly as the property words it",
                        "for templates inside the grammar Template!Render must also agree with text/template, otherwise the run is an infrastructure error"]
    return dict(level=MC, rule="every template of at most %s segments over Template!Alphabet (41 segment kinds: literals, own / promoted / shadowed / "
                "qualified field references, if, with, printf, pipelines, comments, trim markers, execution errors, parse errors) plus %d hand-written "
                "templates outside the grammar, exported from reports of all three levels in two languages through ExportWithString and through "
                "ExportWith with 1-byte, 7-byte and whole-content readers, failing readers, nil readers and nil reports; one event per export"
                % ("2" if run.quick else "3 (and of at most 4 segments over the 12-kind core of the alphabet)", s["extra"]["templates_outside_grammar"]),
                evaluations=s["observations"], distinct_nontrivial=s["distinct"], exhaustive=False)


# ---------------------------------------------------------------------------
# C16: concurrency (Concurrent.tla, MC_Sched, Trace_Concurrent, Go race detector)
# ---------------------------------------------------------------------------
def run_race_harness(run, binary, args, what):
    """Runs the -race harness; a data-race report is a violation (exit code 66 / 'DATA RACE')."""
    import subprocess
    e = dict(os.environ, VERIF_SEED=str(run.seed), GORACE="halt_on_error=0 exitcode=66")
    p = subprocess.run([binary] + args, cwd=run.work, capture_output=True, text=True, timeout=3600, env=e)
    if "DATA RACE" in p.stderr or p.returncode == 66:
        log_path = vlib.save_replay(run, "race_%d" % len(run.violations), {"property": "C16", "what": what, "args": args, "seed": run.seed,
                                                                              "race_report": p.stderr[:6000]})
        first = [l for l in p.stderr.splitlines() if l.strip().startswith(("Write at", "Read at", "Previous write", "Previous read"))][:2]
        run.violations.append({"what": "data race reported by the Go race detector during %s: %s" % (what, " / ".join(first)), "replay": log_path})
    elif p.returncode != 0:
        raise Infra("race harness %s failed rc=%d: %s" % (args[:2], p.returncode, p.stderr[-2000:]))
    line = [l for l in p.stdout.splitlines() if l.startswith("{")]
    return json.loads(line[-1]) if line else None


def check_C16(run):
    # 1. the design: every interleaving of the pure model is race free with sequential results;
    #    each deliberate deviation must be caught (non-vacuity of the invariants)
    vlib.run_tlc(run, "Concurrent", cfg="MC_Concurrent_pure", tag="Concurrent-pure")
    variants = ("LazyTable", "MemoScore", "SharedNames", "SharedScratch", "TemplateCache", "PoolDoublePut")
    for v in variants:
        r = vlib.run_tlc(run, "Concurrent", cfg="MC_Concurrent_" + v, tag="Concurrent-" + v, allow_violation=True)
        if "is violated" not in r["stdout"]:
            raise Infra("negative control %s of Concurrent.tla was not caught by TLC: the invariants are vacuous" % v)
    run.cov["negative_controls_caught"] = len(variants)
    # 2. schedules from TLC
    res = vlib.run_tlc(run, "MC_Sched", dump=True, workers=2)
    sp = run.path("scheds.ndjson")
    n = 0
    with open(sp, "w") as f:
        for st in vlib.parse_dump(res["dump"]):
            if len(st["sched"]) == 8:
                f.write(json.dumps({"sched": st["sched"]}) + "\n")
                n += 1
    race_bin = vlib.build_harness(run, race=True)
    chunks, obs, dist = [], 0, 0
    s = run_race_harness(run, race_bin, ["conc-replay", "-in", sp, "-pairs", "12" if run.quick else "400", "-out", run.work], "gated schedule replay")
    if s:
        chunks += s["chunks"]; obs += s["observations"]; dist += s["distinct"]
        run.cov.update(s["extra"])
        run.samples += s.get("samples", [])[:2]
    cfgs = [("32", "300", "0"), ("16", "300", "2")] if run.quick else [("64", "12000", "0"), ("16", "12000", "2"), ("64", "6000", "4"), ("128", "3000", "16"), ("256", "1500", "0"), ("8", "20000", "8")]
    for i, (g, ops, procs) in enumerate(cfgs):
        d = run.path("stress%d" % i)
        os.makedirs(d)
        s = run_race_harness(run, race_bin, ["conc-stress", "-g", g, "-ops", ops, "-procs", procs, "-out", d], "stress run g=%s ops=%s GOMAXPROCS=%s" % (g, ops, procs))
        if s:
            chunks += s["chunks"]; obs += s["observations"]; dist += s["distinct"]
            run.samples += s.get("samples", [])[:1]
    verdicts = vlib.validate_trace(run, "Trace_Concurrent", chunks, label="conc")
    judge(run, verdicts, describe=lambda ev: json.dumps({k: ev.get(k) for k in ("sched", "jobs", "g", "seq", "op")}))
    run.cov["schedules_from_tlc"] = n
    run.assumptions += ["data-race freedom as such is sensed by the Go race detector while the conformance traces are recorded (harness built with -race); "
                        "the TLA+ model contributes the interleavings that are replayed and the statement of what must stay constant",
                        "schedules are replayed through the build-tag-guarded decodeOne hook; if a refactoring removes the gate points the replay "
                        "degrades to an ungated concurrent run (counted in replays_ungated)"]
    return dict(level=EXPL, rule="(i) all C(8,4)=70 interleavings TLC generates for 4 gated decodeOne steps of two goroutines, each replayed "
                "deterministically for seeded pairs of decode jobs (valid, duplicate-token and invalid vectors of all six decoder kinds); "
                "(ii) free-running stress: seeded operation mixes (decode own object, query shared decoded objects, lower-level views, report "
                "construction + template export, display names) on 16-128 goroutines under several GOMAXPROCS; all under the race detector; "
                "every result validated by TLC against the sequential reference", evaluations=obs, distinct_nontrivial=dist, exhaustive=False)


CHECKS = {"C16": check_C16, "C19": check_C19, "C12": check_C12, "C15": check_C15, "C17": check_C17, "C18": check_C18, "C07": check_C07, "C08": check_C08, "C09": check_C09, "C10": check_C10, "C11": check_C11, "C14": check_C14, "C06": check_C06, "C13": check_C13, "C20": check_C20, "C04": check_C04, "C05": check_C05, "C03": check_C03, "C01": check_C01, "C02": check_C02}
