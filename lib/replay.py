"""bin/check <ID> --replay <file>: re-executes the recorded witness against /repo's current tree and lets TLC judge
the fresh observation again.  Exit 1 (+ VIOLATION line) if it still violates the property, 0 if it no longer does."""
import json, os, subprocess
import vlib, checks, gen

SPEC_FOR = {"v3": "Trace_V3", "v2": "Trace_V2", "dec": "Trace_Lang", "pair": "Trace_Lang"}


def replay(run, path):
    rec = json.load(open(path))
    ev = rec.get("event", {})
    kind = ev.get("k")
    print("replaying %s witness of %s: %s" % (kind, rec.get("property"), rec.get("verdict")))
    if kind in SPEC_FOR:
        if kind in ("v3", "v2"):
            gen.ensure(run, ["v3base", "v3envinner", "v2tabs"])
        out = vlib.run_harness(run, ["replay-event", "-file", os.path.abspath(path), "-out", run.work, "-pid", run.pid])
        s = json.loads([l for l in out.splitlines() if l.startswith("{")][-1])
        verdicts = vlib.validate_trace(run, SPEC_FOR[kind], s["chunks"], pid=run.pid, label="replay")
        bad = [v for v in verdicts if not v["kind"].startswith("kf1:")]
        for v in verdicts:
            print("  fresh verdict: %s" % v["kind"])
        if bad:
            print("VIOLATION property=%s replay=%s" % (run.pid, path))
            return vlib.EXIT_VIOLATION
        print("the recorded witness no longer violates %s on the current tree" % run.pid)
        return vlib.EXIT_OK
    # histories, templates, schedules, tuples: re-run the quick tier of the check, which regenerates them
    print("this witness kind is reproduced by re-running the check (same seed): bin/check %s --tier quick" % run.pid)
    r = checks.CHECKS[run.pid](run)
    return vlib.finish(run, r["level"], r["rule"], r["evaluations"], r["distinct_nontrivial"], r["exhaustive"], r.get("extra"))
